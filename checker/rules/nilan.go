package rules

import (
	"fmt"
	"go/token"
	"go/types"
	"os"
	"strings"

	"golang.org/x/tools/go/ssa"

	"verifchk/core"
)

// NIL — a value that may be nil is tested before it is dereferenced.
//
// Sources of nil: results of package functions that may return nil (summaries, with the refinement
// "nil only if parameter k is nil"), pointer-typed fields of spec.* structs and validator fields copied
// from them, elements of containers, map lookups, failed comma-ok forms, the external functions in
// extMayReturnNil. Dereferences: field/element access through a pointer, loads/stores through a pointer
// value, interface method invocation, passing the value to a callee that dereferences the parameter
// without testing it (summaries; interface dispatch resolved over the implementations in the package).
// A dereference is discharged by a dominating nil test of the same SSA value or of the same access path.

type nilAn struct {
	p           *core.Prog
	mayRetNil   map[*ssa.Function]map[int]bool
	nilIffParam map[*ssa.Function]map[int]int
	derefs      map[*ssa.Function]map[int]bool
	fieldNonNil map[string]bool
	entryMayNil map[*ssa.Parameter]bool
	paramMayNil map[*ssa.Parameter]bool
	implsByName map[string][]*ssa.Function
	slotFields  *slotInfo
	// result i is nil only when the error result j is non-nil / the *Result j is invalid
	nilOnlyWithErr     map[*ssa.Function]map[int]int
	nilOnlyWithInvalid map[*ssa.Function]map[int]int
	fieldStores        map[string][]fieldStore
	slotTypes          map[string][]*types.Named
}

// external: result i nil only when error result j non-nil
var extNilOnlyWithErr = map[string]map[int]int{
	"(*loads.Document).Expanded": {0: 1},
	"spec.ResolveRef":            {0: 1},
	"spec.ResolveRefWithBase":    {0: 1},
}

// external: result i nil only when bool result j is false
var extNilOnlyWithNotOk = map[string]map[int]int{
	"(*analysis.Spec).OperationFor": {0: 1},
	"(*big.Rat).SetString":          {0: 1}, // (nil, false) for a text that is no number
	"(*big.Int).SetString":          {0: 1},
	"(*big.Float).SetString":        {0: 1},
}

// external functions whose listed result may be nil (read from the pinned dependency versions)
var extMayReturnNil = map[string]map[int]bool{
	"(*loads.Document).Expanded":    {0: true}, // nil on error
	"spec.ResolveRef":               {0: true},
	"spec.ResolveRefWithBase":       {0: true},
	"(*analysis.Spec).OperationFor": {0: true}, // nil when not found (second result false)
	"(*big.Rat).SetString":          {0: true}, // nil when the text is no number (second result false)
	"(*big.Int).SetString":          {0: true},
	"(*big.Float).SetString":        {0: true},
	"reflect.TypeOf":                {0: true}, // refined: nil iff argument nil
	"reflect.Value.Interface":       {0: true}, // element may hold nil
	"(*sync.Pool).Get":              {0: false},
	"context.Context.Value":         {0: true},
}

// external functions that return nil exactly when the given argument is nil
var extNilIffArg = map[string]int{
	"reflect.TypeOf": 0,
}

// external methods with pointer receivers that tolerate a nil receiver: none needed today.
var extNilSafeRecv = map[string]bool{}

func newNilAn(p *core.Prog) *nilAn {
	a := &nilAn{p: p,
		mayRetNil: map[*ssa.Function]map[int]bool{}, nilIffParam: map[*ssa.Function]map[int]int{},
		derefs: map[*ssa.Function]map[int]bool{}, fieldNonNil: map[string]bool{},
		entryMayNil: map[*ssa.Parameter]bool{}, paramMayNil: map[*ssa.Parameter]bool{}, implsByName: map[string][]*ssa.Function{},
		nilOnlyWithErr: map[*ssa.Function]map[int]int{}, nilOnlyWithInvalid: map[*ssa.Function]map[int]int{}}
	pi := discoverPools(p)
	a.slotFields = discoverSlots(p, pi)
	for _, f := range p.Funcs {
		if f.Signature.Recv() != nil && f.Parent() == nil {
			a.implsByName[f.Name()] = append(a.implsByName[f.Name()], f)
		}
	}
	a.solve()
	return a
}

// solve iterates the mutually dependent facts to a fixpoint. All of them move monotonically towards
// "more may be nil": parameters (from call-site arguments), fields (from stores), results (from returns).
func (a *nilAn) solve() {
	a.initFieldInvariants()
	for iter := 0; iter < 30; iter++ {
		changed := false
		if a.propagateParams() {
			changed = true
		}
		if a.refineFieldInvariants() {
			changed = true
		}
		for _, f := range a.p.Funcs {
			if a.summarise(f) {
				changed = true
			}
		}
		if !changed {
			break
		}
	}
}

func (a *nilAn) solve2() {
	for iter := 0; iter < 30; iter++ {
		changed := a.propagateParams()
		if a.refineFieldInvariants() {
			changed = true
		}
		for _, f := range a.p.Funcs {
			if a.summarise(f) {
				changed = true
			}
		}
		if !changed {
			break
		}
	}
}

// implsFor returns the package implementations an interface call may dispatch to. When the receiver was
// loaded from a validator slot with a constant index, the constructor's composite literal tells the
// concrete type stored there (SLOT-INIT), and only that implementation is returned.
func (a *nilAn) implsFor(cc *ssa.CallCommon) []*ssa.Function {
	all := a.implsByName[cc.Method.Name()]
	var out []*ssa.Function
	for _, g := range all {
		if types.Identical(g.Signature.Params(), cc.Signature().Params()) && types.Identical(g.Signature.Results(), cc.Signature().Results()) {
			out = append(out, g)
		}
	}
	ref, ok := a.slotFields.origin(cc.Value, 0)
	if !ok || ref.index == nil {
		return out
	}
	ci, isConst := core.ConstInt(ref.index)
	if !isConst {
		ci = -1 // any element of the slot array
	}
	ts := a.slotElemTypes(ref.parent, ref.field, int(ci))
	if len(ts) == 0 {
		return out
	}
	var ref2 []*ssa.Function
	for _, g := range out {
		rt := core.NamedOf(g.Signature.Recv().Type())
		for _, t := range ts {
			if rt == t {
				ref2 = append(ref2, g)
			}
		}
	}
	if len(ref2) == 0 {
		return out
	}
	return ref2
}

// slotElemTypes: concrete validator types stored at parent.field[idx] by the parent's constructor.
func (a *nilAn) slotElemTypes(parent *types.Named, field, idx int) []*types.Named {
	key := fmt.Sprintf("%s#%d#%d", core.KnownTypeName(parent), field, idx)
	if a.slotTypes == nil {
		a.slotTypes = map[string][]*types.Named{}
	}
	if ts, ok := a.slotTypes[key]; ok {
		return ts
	}
	var res []*types.Named
	unknown := false
	var concrete func(v ssa.Value, d int)
	concrete = func(v ssa.Value, d int) {
		if d > 5 {
			unknown = true
			return
		}
		switch x := v.(type) {
		case *ssa.MakeInterface:
			if nn := core.NamedOf(x.X.Type()); nn != nil {
				res = append(res, nn)
			} else {
				unknown = true
			}
		case *ssa.Call:
			g := core.StaticCallee(x)
			if g == nil || !a.p.InSubject(g) {
				unknown = true
				return
			}
			if _, isIface := g.Signature.Results().At(0).Type().Underlying().(*types.Interface); !isIface {
				if nn := core.NamedOf(g.Signature.Results().At(0).Type()); nn != nil {
					res = append(res, nn)
					return
				}
			}
			for _, b := range g.Blocks {
				if ret, ok := b.Instrs[len(b.Instrs)-1].(*ssa.Return); ok && len(ret.Results) == 1 {
					concrete(ret.Results[0], d+1)
				}
			}
		default:
			unknown = true
		}
	}
	for _, f := range a.p.Funcs {
		core.EachInstr(f, func(i ssa.Instruction) {
			st, ok := i.(*ssa.Store)
			if !ok {
				return
			}
			pn, fi, ok := a.slotFields.slotFieldAddr(st.Addr)
			if !ok || pn != parent || fi != field || core.IsNilConst(st.Val) {
				return
			}
			// whole array copied from a local composite literal
			ld, ok := st.Val.(*ssa.UnOp)
			if !ok {
				unknown = true
				return
			}
			al, ok := ld.X.(*ssa.Alloc)
			if !ok {
				unknown = true
				return
			}
			for _, ref := range core.Refs(al) {
				ia, ok := ref.(*ssa.IndexAddr)
				if !ok {
					continue
				}
				ci, isC := core.ConstInt(ia.Index)
				if !isC || (idx >= 0 && int(ci) != idx) {
					continue
				}
				for _, r2 := range core.Refs(ia) {
					if s2, ok := r2.(*ssa.Store); ok && s2.Addr == ssa.Value(ia) {
						concrete(s2.Val, 0)
					}
				}
			}
		})
	}
	if unknown {
		res = nil
	}
	a.slotTypes[key] = res
	return res
}

// propagateParams marks parameters that receive a possibly nil argument at some call site in the package.
func (a *nilAn) propagateParams() bool {
	changed := false
	var cur ssa.Instruction
	mark := func(g *ssa.Function, k int) {
		if k < len(g.Params) && !a.paramMayNil[g.Params[k]] {
			a.paramMayNil[g.Params[k]] = true
			changed = true
			if os.Getenv("VCHK_NILDEBUG") != "" {
				fmt.Fprintf(os.Stderr, "param may be nil: %s#%s because of call at %s in %s\n", core.FuncName(g), g.Params[k].Name(), a.p.Pos(cur.Pos()), core.FuncName(cur.Parent()))
			}
		}
	}
	for _, f := range a.p.Funcs {
		core.EachInstr(f, func(i ssa.Instruction) {
			c, ok := i.(ssa.CallInstruction)
			if !ok {
				return
			}
			cur = i
			cc := c.Common()
			if cc.IsInvoke() {
				for k, arg := range cc.Args {
					if !isNillable(arg.Type()) || a.nonNil(arg, i, 0) {
						continue
					}
					for _, g := range a.implsFor(cc) {
						mark(g, k+1)
					}
				}
				return
			}
			g := cc.StaticCallee()
			if g == nil || !a.p.InSubject(g) {
				return
			}
			for k, arg := range cc.Args {
				if isNillable(arg.Type()) && !a.nonNil(arg, i, 0) {
					mark(g, k)
				}
			}
			// closure bindings are cells (always non-nil)
		})
	}
	return changed
}

func isNillable(t types.Type) bool {
	switch t.Underlying().(type) {
	case *types.Pointer, *types.Interface, *types.Map, *types.Slice, *types.Signature, *types.Chan:
		return true
	}
	return false
}

func isPtrOrIface(t types.Type) bool {
	switch t.Underlying().(type) {
	case *types.Pointer, *types.Interface:
		return true
	}
	return false
}

// computeFieldInvariants: a pointer/interface field of a struct declared in the subject is non-nil
// when every store to it in the package stores a proven non-nil value (greatest fixpoint).
type fieldStore struct {
	f *ssa.Function
	s *ssa.Store
}

func (a *nilAn) initFieldInvariants() {
	type st = fieldStore
	stores := map[string][]st{}
	for _, f := range a.p.Funcs {
		core.EachInstr(f, func(i ssa.Instruction) {
			s, ok := i.(*ssa.Store)
			if !ok {
				return
			}
			fa, ok := s.Addr.(*ssa.FieldAddr)
			if !ok {
				return
			}
			n := core.NamedOf(fa.X.Type())
			if n == nil || n.Obj().Pkg() == nil || !(n.Obj().Pkg() == a.p.Main.Pkg) {
				return
			}
			_, fname, _ := core.FieldOf(fa)
			if !isNillable(s.Val.Type()) {
				return
			}
			k := core.KnownTypeName(n) + "." + fname
			stores[k] = append(stores[k], st{f, s})
		})
	}
	for k := range stores {
		a.fieldNonNil[k] = true
	}
	a.fieldStores = stores
}

func (a *nilAn) refineFieldInvariants() bool {
	any := false
	for changed := true; changed; {
		changed = false
		for k, ss := range a.fieldStores {
			if !a.fieldNonNil[k] {
				continue
			}
			for _, s := range ss {
				if core.IsNilConst(s.s.Val) && core.GuardedByPath(s.s.Block(), recycleSuffix, true) {
					continue // slot clearing of a one-time validator
				}
				if !a.nonNil(s.s.Val, s.s, 0) {
					a.fieldNonNil[k] = false
					changed, any = true, true
					break
				}
			}
		}
	}
	return any
}

// condNonNil: is v (or its access path) known non-nil at block b / on the edge into it?
func (a *nilAn) condNonNil(v ssa.Value, conds []core.Cond) bool {
	vp, vok := core.Path(v)
	for _, c := range conds {
		// a boolean predicate of the package that answers the constant k whenever this argument is nil:
		// on the edge where it answered !k the argument is not nil (`if r.IsValid() { return nil }; use r.Errors`)
		if call, ok := c.Value.(*ssa.Call); ok {
			if g := core.StaticCallee(call); g != nil && a.p.InSubject(g) {
				for k, arg := range call.Call.Args {
					if arg != v || k >= len(g.Params) {
						continue
					}
					if ans, ok := nilAnswer(g, k); ok && ans != c.Sense {
						return true
					}
				}
			}
		}
		bo, ok := c.Value.(*ssa.BinOp)
		if !ok || (bo.Op != token.EQL && bo.Op != token.NEQ) {
			continue
		}
		// reviewed accessor fact (spec@v0.21.0 items.go): X.ItemsTypeName() != "" implies X.Items != nil
		if call, ok := bo.X.(*ssa.Call); ok && vok {
			if g := core.StaticCallee(call); g != nil && core.QualName(g) == "(*spec.SimpleSchema).ItemsTypeName" {
				if k, isC := bo.Y.(*ssa.Const); isC && k.Value != nil && k.Value.ExactString() == `""` {
					nonEmpty := (bo.Op == token.NEQ && c.Sense) || (bo.Op == token.EQL && !c.Sense)
					if rp, ok := core.Path(call.Call.Args[0]); ok && nonEmpty && strings.TrimPrefix(rp, "&")+".Items" == strings.TrimPrefix(vp, "&") {
						return true
					}
				}
			}
		}
		var x ssa.Value
		if core.IsNilConst(bo.Y) {
			x = bo.X
		} else if core.IsNilConst(bo.X) {
			x = bo.Y
		} else {
			continue
		}
		nonNilHere := (bo.Op == token.NEQ && c.Sense) || (bo.Op == token.EQL && !c.Sense)
		if !nonNilHere {
			continue
		}
		if x == v {
			return true
		}
		if mi, ok := x.(*ssa.MakeInterface); ok && mi.X == v {
			return true
		}
		if vok {
			if xp, ok := core.Path(x); ok && xp == vp && !strings.Contains(vp, "?") {
				return true
			}
		}
	}
	return false
}

// nilAnswer: the boolean function g returns the same constant on every return that is reachable with its
// k-th parameter nil, and every return not known to have that parameter non-nil... precisely: some return is
// confined to "param k == nil" and returns the constant, and no other return can be reached with the parameter
// nil (all other returns are in blocks where the parameter was tested non-nil).
func nilAnswer(g *ssa.Function, k int) (bool, bool) {
	if len(g.Blocks) == 0 || g.Signature.Results().Len() != 1 {
		return false, false
	}
	if b, ok := g.Signature.Results().At(0).Type().Underlying().(*types.Basic); !ok || b.Kind() != types.Bool {
		return false, false
	}
	prm := g.Params[k]
	found, ans := false, false
	for _, b := range g.Blocks {
		ret, ok := b.Instrs[len(b.Instrs)-1].(*ssa.Return)
		if !ok {
			continue
		}
		if paramNilAt(prm, b) {
			c, isC := ret.Results[0].(*ssa.Const)
			if !isC || c.Value == nil {
				return false, false
			}
			v := c.Value.ExactString() == "true"
			if found && v != ans {
				return false, false
			}
			found, ans = true, v
			continue
		}
		// any other return must be on the non-nil side
		nonNil := false
		for _, cd := range core.CondsAt(b) {
			if bo, ok := cd.Value.(*ssa.BinOp); ok {
				var x ssa.Value
				if core.IsNilConst(bo.Y) {
					x = bo.X
				} else if core.IsNilConst(bo.X) {
					x = bo.Y
				}
				if x == ssa.Value(prm) && ((bo.Op == token.NEQ && cd.Sense) || (bo.Op == token.EQL && !cd.Sense)) {
					nonNil = true
				}
			}
		}
		if !nonNil {
			return false, false
		}
	}
	return ans, found
}

func condsOnEdge(pred, succ *ssa.BasicBlock) []core.Cond {
	cs := core.CondsAt(pred)
	if ifi, ok := pred.Instrs[len(pred.Instrs)-1].(*ssa.If); ok && pred.Succs[0] != pred.Succs[1] {
		sense := pred.Succs[0] == succ
		v := ifi.Cond
		for {
			u, ok := v.(*ssa.UnOp)
			if ok && u.Op == token.NOT {
				v, sense = u.X, !sense
				continue
			}
			break
		}
		cs = append(cs, core.Cond{If: ifi, Value: v, Sense: sense})
	}
	return cs
}

// nonNil: is v proven non-nil where instruction at executes?
func (a *nilAn) nonNil(v ssa.Value, at ssa.Instruction, depth int) bool {
	if depth > 8 {
		return false
	}
	if !isNillable(v.Type()) {
		return true
	}
	if at != nil && a.condNonNil(v, core.CondsAt(at.Block())) {
		return true
	}
	switch x := v.(type) {
	case *ssa.Alloc, *ssa.MakeMap, *ssa.MakeSlice, *ssa.MakeChan, *ssa.MakeClosure, *ssa.FieldAddr, *ssa.IndexAddr, *ssa.Function, *ssa.Global, *ssa.MakeInterface, *ssa.FreeVar, *ssa.Slice:
		return true
	case *ssa.Const:
		return !x.IsNil()
	case *ssa.Parameter:
		return !a.entryMayNil[x] && !a.paramMayNil[x]
	case *ssa.Phi:
		for i, e := range x.Edges {
			pred := x.Block().Preds[i]
			if a.condNonNil(e, condsOnEdge(pred, x.Block())) {
				continue
			}
			last := pred.Instrs[len(pred.Instrs)-1]
			if e == ssa.Value(x) {
				continue
			}
			if !a.nonNil(e, last, depth+1) {
				return false
			}
		}
		return true
	case *ssa.ChangeType:
		return a.nonNil(x.X, at, depth+1)
	case *ssa.ChangeInterface:
		return a.nonNil(x.X, at, depth+1)
	case *ssa.Convert:
		return true
	case *ssa.TypeAssert:
		return !x.CommaOk
	case *ssa.BinOp:
		return true
	case *ssa.Field:
		if nn := core.NamedOf(x.X.Type()); nn != nil {
			_, fname, _ := core.FieldOf(x)
			if a.fieldNonNil[core.KnownTypeName(nn)+"."+fname] && nn.Obj().Pkg() == a.p.Main.Pkg {
				return true
			}
		}
		return false
	case *ssa.UnOp:
		if x.Op != token.MUL {
			return true
		}
		// store-to-load forwarding inside one block (spilled results, fields of locals)
		if ap, ok := core.Path(x.X); ok {
			b := x.Block()
			idx := core.InstrIndex(x)
			for k := idx - 1; k >= 0; k-- {
				if st, ok := b.Instrs[k].(*ssa.Store); ok {
					if sp, ok := core.Path(st.Addr); ok && sp == ap {
						return a.nonNil(st.Val, st, depth+1)
					}
				}
				if _, isCall := b.Instrs[k].(ssa.CallInstruction); isCall {
					if _, isAlloc := x.X.(*ssa.Alloc); !isAlloc {
						break
					}
				}
			}
		}
		switch src := x.X.(type) {
		case *ssa.Alloc:
			any := false
			for _, ref := range core.Refs(src) {
				if st, ok := ref.(*ssa.Store); ok && st.Addr == ssa.Value(src) {
					any = true
					if !a.nonNil(st.Val, st, depth+1) {
						return false
					}
				}
			}
			return any
		case *ssa.FreeVar:
			return true // captured cell: resolved in the parent (closures only forward)
		case *ssa.Global:
			return true // package-level pointers are initialised once (GLOBALS); nil helper receivers are never dereferenced (callee summaries)
		case *ssa.FieldAddr:
			n := core.NamedOf(src.X.Type())
			_, fname, _ := core.FieldOf(src)
			if n != nil {
				if a.fieldNonNil[core.KnownTypeName(n)+"."+fname] && n.Obj().Pkg() == a.p.Main.Pkg {
					return true
				}
				if _, ok := a.slotFields.slots[n][src.Field]; ok {
					return true // SLOT-INIT: filled by the constructor (cleared only for one-time validators)
				}
			}
			return a.callSitesEstablish(x)
		case *ssa.IndexAddr:
			// element of a slot array/slice
			if fa, ok := src.X.(*ssa.FieldAddr); ok {
				if n := core.NamedOf(fa.X.Type()); n != nil {
					if _, ok := a.slotFields.slots[n][fa.Field]; ok {
						return true
					}
				}
			}
			if ld, ok := src.X.(*ssa.UnOp); ok {
				if fa, ok := ld.X.(*ssa.FieldAddr); ok {
					if n := core.NamedOf(fa.X.Type()); n != nil {
						if _, ok := a.slotFields.slots[n][fa.Field]; ok {
							return true
						}
					}
				}
			}
			return elemAssumedNonNil(x.Type())
		}
		return false
	case *ssa.Index:
		if ld, ok := x.X.(*ssa.UnOp); ok {
			if fa, ok := ld.X.(*ssa.FieldAddr); ok {
				if n := core.NamedOf(fa.X.Type()); n != nil {
					if _, ok := a.slotFields.slots[n][fa.Field]; ok {
						return true
					}
				}
			}
		}
		return false
	case *ssa.Lookup:
		if keyFromSameMap(x) && elemAssumedNonNil(x.Type()) {
			return true
		}
		return at != nil && ensuredMapEntry(x, at)
	case *ssa.Extract:
		switch t := x.Tuple.(type) {
		case *ssa.Call:
			if a.callNonNil(t, x.Index, at, depth) {
				return true
			}
			return at != nil && a.pairedNonNil(t, x.Index, at.Block())
		case *ssa.TypeAssert:
			if x.Index == 0 && at != nil {
				return okTrueAt(t, at.Block())
			}
		case *ssa.Lookup:
			if x.Index == 0 && at != nil {
				return false
			}
		case *ssa.Next:
			return elemAssumedNonNil(x.Type())
		}
		return false
	case *ssa.Call:
		return a.callNonNil(x, 0, at, depth)
	}
	return false
}

// callSitesEstablish: the loaded access path is rooted at a parameter of an unexported function, and every call
// site of that function is dominated by a non-nil test of the corresponding path of its argument (the guard of an
// extracted helper stays at the call site: `if s.X != nil { s.helper(...) }` with helper reading s.X).
func (a *nilAn) callSitesEstablish(ld *ssa.UnOp) bool {
	f := ld.Parent()
	if f == nil || f.Parent() != nil {
		return false
	}
	if o := f.Object(); o == nil || o.Exported() {
		return false
	}
	vp, ok := core.Path(ld)
	if !ok || strings.Contains(vp, "?") {
		return false
	}
	vp = strings.TrimPrefix(vp, "&")
	var root *ssa.Parameter
	k := -1
	for i, prm := range f.Params {
		if strings.HasPrefix(vp, prm.Name()+".") {
			root, k = prm, i
		}
	}
	if root == nil {
		return false
	}
	suffix := strings.TrimPrefix(vp, root.Name())
	// the callee must not assign the field itself
	_, fname, _ := core.FieldOf(ld.X)
	assigned := false
	core.EachInstr(f, func(i ssa.Instruction) {
		if st, ok := i.(*ssa.Store); ok {
			if _, n2, ok := core.FieldOf(st.Addr); ok && n2 == fname {
				assigned = true
			}
		}
	})
	if assigned {
		return false
	}
	n, all := 0, true
	for _, g := range a.p.Funcs {
		core.EachInstr(g, func(i ssa.Instruction) {
			// the function used as a value: callers unknown
			for _, op := range i.Operands(nil) {
				if op != nil && *op == ssa.Value(f) {
					if c, isCall := i.(ssa.CallInstruction); !isCall || c.Common().Value != ssa.Value(f) {
						all = false
					}
				}
			}
			c, ok := i.(ssa.CallInstruction)
			if !ok || core.StaticCallee(c) != f {
				return
			}
			n++
			if k >= len(c.Common().Args) {
				all = false
				return
			}
			ap, ok := core.Path(c.Common().Args[k])
			if !ok || strings.Contains(ap, "?") {
				all = false
				return
			}
			want := strings.TrimPrefix(ap, "&") + suffix
			found := false
			for _, cond := range core.CondsAt(i.Block()) {
				bo, ok := cond.Value.(*ssa.BinOp)
				if !ok || (bo.Op != token.EQL && bo.Op != token.NEQ) {
					continue
				}
				var x ssa.Value
				if core.IsNilConst(bo.Y) {
					x = bo.X
				} else if core.IsNilConst(bo.X) {
					x = bo.Y
				} else {
					continue
				}
				if !((bo.Op == token.NEQ && cond.Sense) || (bo.Op == token.EQL && !cond.Sense)) {
					continue
				}
				if xp, ok := core.Path(x); ok && strings.TrimPrefix(xp, "&") == want {
					found = true
				}
			}
			if !found {
				all = false
			}
		})
	}
	return n > 0 && all
}

// ensuredMapEntry recognises the idiom
//
//	if _, found := m[k]; !found { m[k] = make(...) } ; ... m[k][x] = y
//
// the looked-up inner map is non-nil at `at` when a comma-ok lookup of the same map and key dominates it
// and its not-found edge stores a freshly made map under that key.
func ensuredMapEntry(l *ssa.Lookup, at ssa.Instruction) bool {
	if l.CommaOk {
		return false
	}
	mp, ok1 := core.Path(l.X)
	same := func(a, b ssa.Value) bool {
		if a == b {
			return true
		}
		pa, oka := core.Path(a)
		pb, okb := core.Path(b)
		return oka && okb && pa == pb
	}
	f := l.Parent()
	found := false
	core.EachInstr(f, func(i ssa.Instruction) {
		l2, ok := i.(*ssa.Lookup)
		if !ok || !l2.CommaOk || !core.InstrDominates(l2, at) {
			return
		}
		p2, ok2 := core.Path(l2.X)
		if !(l2.X == l.X || (ok1 && ok2 && mp == p2)) || !same(l2.Index, l.Index) {
			return
		}
		core.EachInstr(f, func(j ssa.Instruction) {
			mu, ok := j.(*ssa.MapUpdate)
			if !ok || !same(mu.Key, l.Index) {
				return
			}
			p3, ok3 := core.Path(mu.Map)
			if !(mu.Map == l.X || (ok1 && ok3 && mp == p3)) {
				return
			}
			if _, isMk := mu.Value.(*ssa.MakeMap); !isMk {
				return
			}
			for _, c := range core.CondsAt(mu.Block()) {
				if ex, ok := c.Value.(*ssa.Extract); ok && ex.Tuple == ssa.Value(l2) && ex.Index == 1 && !c.Sense {
					found = true
				}
			}
		})
	})
	return found
}

// keyFromSameMap recognises the sorted-keys idiom
//
//	keys := make([]string, 0, len(m)); for k := range m { keys = append(keys, k) }; sort.Strings(keys)
//	for _, k := range keys { v := m[k] ... }
//
// the key of the lookup is an element of a slice that only ever receives keys of a range over the very same map:
// the entry exists, the lookup yields a stored element (not the zero value of a missing key).
func keyFromSameMap(l *ssa.Lookup) bool {
	if l.CommaOk {
		return false
	}
	ld, ok := l.Index.(*ssa.UnOp)
	if !ok || ld.Op != token.MUL {
		return false
	}
	ia, ok := ld.X.(*ssa.IndexAddr)
	if !ok {
		return false
	}
	sameMap := func(m ssa.Value) bool {
		if m == l.X {
			return true
		}
		pa, oka := core.Path(m)
		pb, okb := core.Path(l.X)
		return oka && okb && pa == pb
	}
	return sliceOfKeysOf(ia.X, sameMap, 0)
}

// sliceOfKeysOf: the slice value only ever receives keys of a range over a map accepted by isMap (appends in the
// function itself, or the result of a helper of the package that returns such a slice for its map parameter).
func sliceOfKeysOf(sl ssa.Value, isMap func(ssa.Value) bool, depth int) bool {
	if depth > 2 {
		return false
	}
	seen := map[ssa.Value]bool{}
	nApp := 0
	var fromKeys func(v ssa.Value, d int) bool
	fromKeys = func(v ssa.Value, d int) bool {
		if d > 12 || seen[v] {
			return true
		}
		seen[v] = true
		switch x := v.(type) {
		case *ssa.MakeSlice:
			return true
		case *ssa.Const:
			return x.Value == nil // nil slice
		case *ssa.Phi:
			for _, e := range x.Edges {
				if !fromKeys(e, d+1) {
					return false
				}
			}
			return true
		case *ssa.Call:
			b, isB := x.Call.Value.(*ssa.Builtin)
			if !isB {
				// a helper returning the (sorted) keys of its map parameter
				h := core.StaticCallee(x)
				if h == nil || len(h.Blocks) == 0 || h.Signature.Results().Len() != 1 {
					return false
				}
				for k, prm := range h.Params {
					if k >= len(x.Call.Args) || !isMap(x.Call.Args[k]) {
						continue
					}
					okAll, nRet := true, 0
					for _, hb := range h.Blocks {
						ret, isRet := hb.Instrs[len(hb.Instrs)-1].(*ssa.Return)
						if !isRet {
							continue
						}
						nRet++
						pv := ssa.Value(prm)
						if !sliceOfKeysOf(ret.Results[0], func(m ssa.Value) bool { return m == pv }, depth+1) {
							okAll = false
						}
					}
					if okAll && nRet > 0 {
						nApp++
						return true
					}
				}
				return false
			}
			if b.Name() != "append" || len(x.Call.Args) != 2 {
				return false
			}
			if !fromKeys(x.Call.Args[0], d+1) {
				return false
			}
			sl, isSl := x.Call.Args[1].(*ssa.Slice)
			if !isSl {
				return false
			}
			al, isAl := sl.X.(*ssa.Alloc)
			if !isAl {
				return false
			}
			for _, ref := range core.Refs(al) {
				eia, isIA := ref.(*ssa.IndexAddr)
				if !isIA {
					continue
				}
				for _, r2 := range core.Refs(eia) {
					st, isSt := r2.(*ssa.Store)
					if !isSt || st.Addr != ssa.Value(eia) {
						continue
					}
					ex, isEx := st.Val.(*ssa.Extract)
					if !isEx || ex.Index != 1 {
						return false
					}
					nx, isNx := ex.Tuple.(*ssa.Next)
					if !isNx {
						return false
					}
					rg, isRg := nx.Iter.(*ssa.Range)
					if !isRg || !isMap(rg.X) {
						return false
					}
					nApp++
				}
			}
			return true
		}
		return false
	}
	return fromKeys(sl, 0) && nApp > 0
}


// unspillResult: with named results and a deferred call, `return x, y` stores x and y into the result cells, runs
// the defers and returns what it loads back. When every deferred function only writes through the cells it is
// given after a recover() that returned non-nil (a panic-to-error boundary), the values loaded on a normal return
// are the values stored by that return statement: the store preceding the load in the same block.
func unspillResult(v ssa.Value, ret *ssa.Return) ssa.Value {
	ld, ok := v.(*ssa.UnOp)
	if !ok || ld.Op != token.MUL {
		return v
	}
	cell, ok := ld.X.(*ssa.Alloc)
	if !ok || ld.Block() != ret.Block() {
		return v
	}
	f := ret.Parent()
	// the deferred functions leave the cells alone unless they recovered a panic
	safe := true
	core.EachInstr(f, func(i ssa.Instruction) {
		d, isD := i.(*ssa.Defer)
		if !isD {
			return
		}
		g := core.StaticCallee(d)
		if g == nil || len(g.Blocks) == 0 {
			// a closure or an unknown function: does it touch the cell?
			if mc, isMC := d.Call.Value.(*ssa.MakeClosure); isMC {
				for _, b := range mc.Bindings {
					if b == ssa.Value(cell) {
						safe = false
					}
				}
				return
			}
			for _, a := range d.Call.Args {
				if a == ssa.Value(cell) {
					safe = false
				}
			}
			return
		}
		for k, a := range d.Call.Args {
			if a != ssa.Value(cell) || k >= len(g.Params) {
				continue
			}
			prm := g.Params[k]
			core.EachInstr(g, func(j ssa.Instruction) {
				st, isSt := j.(*ssa.Store)
				if !isSt || st.Addr != ssa.Value(prm) {
					return
				}
				recovered := false
				for _, cd := range core.CondsAt(st.Block()) {
					bo, isBo := cd.Value.(*ssa.BinOp)
					if !isBo {
						continue
					}
					for _, op := range []ssa.Value{bo.X, bo.Y} {
						if c, isC := op.(*ssa.Call); isC {
							if b, isB := c.Call.Value.(*ssa.Builtin); isB && b.Name() == "recover" {
								if (bo.Op == token.NEQ && cd.Sense) || (bo.Op == token.EQL && !cd.Sense) {
									recovered = true
								}
							}
						}
					}
				}
				if !recovered {
					safe = false
				}
			})
		}
	})
	if !safe {
		return v
	}
	var last ssa.Value
	for _, i := range ret.Block().Instrs {
		if i == ssa.Instruction(ld) {
			break
		}
		if st, isSt := i.(*ssa.Store); isSt && st.Addr == ssa.Value(cell) {
			last = st.Val
		}
	}
	if last != nil {
		return last
	}
	return v
}

// elemAssumedNonNil: elements of containers are assumed non-nil unless they are dynamic JSON values
// (interface{}): pointer, func and named-interface (error, validators) elements are only ever inserted
// non-nil by this package and by the trusted dependencies. Map *lookups* are not covered by this
// assumption (a missing key yields nil).
func elemAssumedNonNil(t types.Type) bool {
	if it, ok := t.Underlying().(*types.Interface); ok {
		return it.NumMethods() > 0
	}
	return true
}

func okTrueAt(tuple ssa.Value, b *ssa.BasicBlock) bool {
	for _, c := range core.CondsAt(b) {
		if ex, ok := c.Value.(*ssa.Extract); ok && ex.Tuple == tuple && ex.Index == 1 && c.Sense {
			return true
		}
	}
	return false
}

func (a *nilAn) callNonNil(c *ssa.Call, idx int, at ssa.Instruction, depth int) bool {
	cc := c.Common()
	if cc.IsInvoke() {
		impls := a.implsFor(cc)
		if len(impls) == 0 {
			q := core.TypeName(cc.Value.Type()) + "." + cc.Method.Name()
			return !extMayReturnNil[q][idx]
		}
		for _, g := range impls {
			if a.mayRetNil[g][idx] {
				return false
			}
			if k, ok := a.nilIffParam[g][idx]; ok {
				// params of the implementation include the receiver; invoke args do not
				if k-1 < 0 || k-1 >= len(cc.Args) || !a.nonNil(cc.Args[k-1], c, depth+1) {
					return false
				}
			}
		}
		return true
	}
	g := cc.StaticCallee()
	if g == nil {
		if _, ok := cc.Value.(*ssa.Builtin); ok {
			return true
		}
		return false
	}
	if !a.p.InSubject(g) {
		q := core.QualName(g)
		if k, ok := extNilIffArg[q]; ok && k < len(cc.Args) {
			return a.nonNil(cc.Args[k], c, depth+1)
		}
		return !extMayReturnNil[q][idx]
	}
	if a.mayRetNil[g][idx] {
		return false
	}
	if _, paired := a.nilOnlyWithErr[g][idx]; paired {
		return false // only non-nil where the companion error was tested (pairedNonNil)
	}
	if _, paired := a.nilOnlyWithInvalid[g][idx]; paired {
		return false
	}
	if k, ok := a.nilIffParam[g][idx]; ok {
		if k >= len(cc.Args) || !a.nonNil(cc.Args[k], c, depth+1) {
			return false
		}
	}
	return true
}

// pairedNonNil: result idx of call c is nil only together with an error / a false ok / an invalid
// *Result, and the block b is only reached when that companion says "fine".
func (a *nilAn) pairedNonNil(c *ssa.Call, idx int, b *ssa.BasicBlock) bool {
	g := c.Common().StaticCallee()
	if g == nil {
		return false
	}
	q := core.QualName(g)
	companion := func(j int) ssa.Value {
		for _, ref := range core.Refs(c) {
			if e, ok := ref.(*ssa.Extract); ok && e.Index == j {
				return e
			}
		}
		return nil
	}
	errIdx, hasErr := extNilOnlyWithErr[q][idx]
	if !hasErr {
		errIdx, hasErr = a.nilOnlyWithErr[g][idx]
	}
	if hasErr {
		if ev := companion(errIdx); ev != nil && errIsNilAt(b, ev) {
			return true
		}
	}
	if okIdx, has := extNilOnlyWithNotOk[q][idx]; has {
		if ov := companion(okIdx); ov != nil {
			for _, cd := range core.CondsAt(b) {
				if cd.Value == ov && cd.Sense {
					return true
				}
			}
		}
	}
	if rIdx, has := a.nilOnlyWithInvalid[g][idx]; has {
		if rv := companion(rIdx); rv != nil {
			for _, cd := range core.CondsAt(b) {
				call, ok := cd.Value.(*ssa.Call)
				if !ok || !cd.Sense {
					continue
				}
				if h := core.StaticCallee(call); h != nil && core.QualName(h) == "(*validate.Result).IsValid" && call.Call.Args[0] == rv {
					return true
				}
			}
		}
	}
	return false
}

type derefSite struct {
	at  ssa.Instruction
	val ssa.Value
	how string
}

// derefSites lists the dereferences in f (not yet filtered by nil-ness).
func (a *nilAn) derefSites(f *ssa.Function) []derefSite {
	var out []derefSite
	core.EachInstr(f, func(i ssa.Instruction) {
		switch x := i.(type) {
		case *ssa.FieldAddr:
			out = append(out, derefSite{i, x.X, "field access ." + func() string { _, n, _ := core.FieldOf(x); return n }()})
		case *ssa.UnOp:
			if x.Op == token.MUL {
				switch x.X.(type) {
				case *ssa.FieldAddr, *ssa.IndexAddr, *ssa.Alloc, *ssa.Global, *ssa.FreeVar:
				default:
					out = append(out, derefSite{i, x.X, "load through pointer"})
				}
			}
		case *ssa.Store:
			switch x.Addr.(type) {
			case *ssa.FieldAddr, *ssa.IndexAddr, *ssa.Alloc, *ssa.Global, *ssa.FreeVar:
			default:
				out = append(out, derefSite{i, x.Addr, "store through pointer"})
			}
		case *ssa.IndexAddr:
			if _, ok := x.X.Type().Underlying().(*types.Pointer); ok {
				switch x.X.(type) {
				case *ssa.FieldAddr, *ssa.Alloc, *ssa.Global:
				default:
					out = append(out, derefSite{i, x.X, "element access through array pointer"})
				}
			}
		case *ssa.MapUpdate:
			out = append(out, derefSite{i, x.Map, "write to map"})
		case ssa.CallInstruction:
			if _, isGo := i.(*ssa.Go); isGo {
				return
			}
			cc := x.Common()
			if cc.IsInvoke() {
				out = append(out, derefSite{i, cc.Value, "method call ." + cc.Method.Name() + " on interface"})
				impls := a.implsFor(cc)
				for k, arg := range cc.Args {
					if !isNillable(arg.Type()) {
						continue
					}
					for _, g := range impls {
						if a.derefs[g][k+1] {
							out = append(out, derefSite{i, arg, fmt.Sprintf("passed to %s, which dereferences it without a nil test", core.FuncName(g))})
							break
						}
					}
				}
				return
			}
			g := cc.StaticCallee()
			if g == nil {
				if _, isB := cc.Value.(*ssa.Builtin); !isB {
					out = append(out, derefSite{i, cc.Value, "call of function value"})
				}
				return
			}
			if a.p.InSubject(g) {
				for k, arg := range cc.Args {
					if isNillable(arg.Type()) && a.derefs[g][k] {
						out = append(out, derefSite{i, arg, fmt.Sprintf("passed to %s, which dereferences it without a nil test", core.FuncName(g))})
					}
				}
				return
			}
			// external: pointer receivers are dereferenced unless listed nil-safe
			q := core.QualName(g)
			if g.Signature.Recv() != nil && len(cc.Args) > 0 && !extNilSafeRecv[q] {
				if _, isPtr := g.Signature.Recv().Type().(*types.Pointer); isPtr {
					out = append(out, derefSite{i, cc.Args[0], "receiver of external method " + q})
				}
			}
		}
	})
	return out
}

// summarise recomputes the summaries of f; reports change.
func (a *nilAn) summarise(f *ssa.Function) bool {
	changed := false
	// derefs of parameters
	for _, d := range a.derefSites(f) {
		prm, ok := d.val.(*ssa.Parameter)
		if !ok {
			// through MakeInterface etc. not needed
			continue
		}
		if a.condNonNil(prm, core.CondsAt(d.at.Block())) {
			continue
		}
		for k, q := range f.Params {
			if q == prm {
				if a.derefs[f] == nil {
					a.derefs[f] = map[int]bool{}
				}
				if !a.derefs[f][k] {
					a.derefs[f][k] = true
					changed = true
				}
			}
		}
	}
	// results
	res := f.Signature.Results()
	for ri := 0; ri < res.Len(); ri++ {
		if !isPtrOrIface(res.At(ri).Type()) || res.At(ri).Type().String() == "error" {
			continue
		}
		may := false
		iff := -2
		for _, b := range f.Blocks {
			ret, ok := b.Instrs[len(b.Instrs)-1].(*ssa.Return)
			if !ok || b == f.Recover {
				continue
			}
			v := unspillResult(ret.Results[ri], ret)
			if a.nonNil(v, ret, 0) {
				continue
			}
			if a.returnPaired(f, ret, ri) {
				continue
			}
			// nil (or may-nil) return: is it confined to "param k is nil"?
			k := -1
			if core.IsNilConst(v) || true {
				for pk, prm := range f.Params {
					if !isNillable(prm.Type()) {
						continue
					}
					if paramNilAt(prm, b) {
						k = pk
					}
				}
				// spilled result cells: `*t1 = nil` in a block guarded by the param test, then return of the load
				if k < 0 {
					if ld, ok := v.(*ssa.UnOp); ok && ld.Op == token.MUL {
						if cell, ok := ld.X.(*ssa.Alloc); ok {
							k = a.spilledNilIff(f, cell, ret)
						}
					}
				}
			}
			if k < 0 {
				may = true
			} else if iff == -2 {
				iff = k
			} else if iff != k {
				may = true
			}
		}
		if may {
			if a.mayRetNil[f] == nil {
				a.mayRetNil[f] = map[int]bool{}
			}
			if !a.mayRetNil[f][ri] {
				a.mayRetNil[f][ri] = true
				changed = true
			}
			if _, had := a.nilIffParam[f][ri]; had {
				delete(a.nilIffParam[f], ri)
			}
		} else if iff >= 0 {
			if a.nilIffParam[f] == nil {
				a.nilIffParam[f] = map[int]int{}
			}
			if old, ok := a.nilIffParam[f][ri]; !ok || old != iff {
				a.nilIffParam[f][ri] = iff
				changed = true
			}
		}
	}
	return changed
}

// returnPaired: the may-nil result ri of this return comes with a non-nil error (or an invalid *Result);
// records the pairing in the summaries. A function keeps a pairing only if all its may-nil returns have it.
func (a *nilAn) returnPaired(f *ssa.Function, ret *ssa.Return, ri int) bool {
	res := f.Signature.Results()
	for j := 0; j < res.Len(); j++ {
		if j == ri {
			continue
		}
		tj := res.At(j).Type()
		switch {
		case tj.String() == "error":
			ev := unspillResult(ret.Results[j], ret)
			ok := false
			// forwarded pair from a callee
			if ei, isE := unspillResult(ret.Results[ri], ret).(*ssa.Extract); isE {
				if ej, isE2 := ev.(*ssa.Extract); isE2 && ei.Tuple == ej.Tuple {
					if c, isC := ei.Tuple.(*ssa.Call); isC {
						if g := c.Common().StaticCallee(); g != nil {
							if k, has := extNilOnlyWithErr[core.QualName(g)][ei.Index]; has && k == ej.Index {
								ok = true
							}
							if k, has := a.nilOnlyWithErr[g][ei.Index]; has && k == ej.Index {
								ok = true
							}
						}
					}
				}
			}
			if !ok && !core.IsNilConst(ev) && errIsNonNilAt(ret.Block(), ev) {
				ok = true
			}
			if !ok {
				if c, isC := ev.(*ssa.Call); isC {
					if g := c.Common().StaticCallee(); g != nil && !a.p.InSubject(g) {
						switch core.QualName(g) {
						case "fmt.Errorf", "errors.New":
							ok = true
						}
					}
				}
			}
			if ok {
				if a.nilOnlyWithErr[f] == nil {
					a.nilOnlyWithErr[f] = map[int]int{}
				}
				a.nilOnlyWithErr[f][ri] = j
				return true
			}
		case core.TypeName(tj) == "validate.Result":
			// (nil, res) where res received an error on this path: a call adding a non-nil error to it dominates the return
			rv := ret.Results[j]
			found := false
			core.EachInstr(f, func(i ssa.Instruction) {
				c, ok := i.(*ssa.Call)
				if !ok || !core.InstrDominates(c, ret) {
					return
				}
				g := core.StaticCallee(c)
				if g == nil {
					return
				}
				// a helper that records an error in the result it is given whenever its error argument is non-nil
				// (computed, not assumed: a helper that only records under a further condition does not count)
				if a.p.InSubject(g) {
					for ri2, ra := range c.Call.Args {
						if ra != rv {
							continue
						}
						for ei, ea := range c.Call.Args {
							if ea.Type().String() == "error" && errIsNonNilAt(c.Block(), ea) && addsErrorWhenNonNil(g, ri2, ei) {
								found = true
							}
						}
					}
				}
			})
			if found {
				if a.nilOnlyWithInvalid[f] == nil {
					a.nilOnlyWithInvalid[f] = map[int]int{}
				}
				a.nilOnlyWithInvalid[f][ri] = j
				return true
			}
		}
	}
	return false
}

// addsErrorWhenNonNil: every return of g is either dominated by a call AddErrors(...) on parameter resIdx, or
// can only be reached with parameter errIdx == nil.
func addsErrorWhenNonNil(g *ssa.Function, resIdx, errIdx int) bool {
	if resIdx >= len(g.Params) || errIdx >= len(g.Params) || len(g.Blocks) == 0 {
		return false
	}
	res, errP := g.Params[resIdx], g.Params[errIdx]
	var adds []*ssa.Call
	core.EachInstr(g, func(i ssa.Instruction) {
		c, ok := i.(*ssa.Call)
		if !ok {
			return
		}
		h := core.StaticCallee(c)
		if h == nil || h.Name() != "AddErrors" || len(c.Call.Args) == 0 || c.Call.Args[0] != ssa.Value(res) {
			return
		}
		adds = append(adds, c)
	})
	if len(adds) == 0 {
		return false
	}
	nilAt := func(b *ssa.BasicBlock) bool {
		for _, c := range core.CondsAt(b) {
			bo, ok := c.Value.(*ssa.BinOp)
			if !ok {
				continue
			}
			var x ssa.Value
			if core.IsNilConst(bo.Y) {
				x = bo.X
			} else if core.IsNilConst(bo.X) {
				x = bo.Y
			}
			if x != ssa.Value(errP) {
				continue
			}
			if (bo.Op == token.EQL && c.Sense) || (bo.Op == token.NEQ && !c.Sense) {
				return true
			}
		}
		return false
	}
	for _, b := range g.Blocks {
		ret, ok := b.Instrs[len(b.Instrs)-1].(*ssa.Return)
		if !ok {
			continue
		}
		covered := false
		for _, ad := range adds {
			if core.InstrDominates(ad, ret) {
				covered = true
			}
		}
		if !covered {
			// the join after `if err != nil { AddErrors }`: every predecessor path either added or had err == nil
			covered = true
			var visit func(x *ssa.BasicBlock, seen map[*ssa.BasicBlock]bool) bool
			visit = func(x *ssa.BasicBlock, seen map[*ssa.BasicBlock]bool) bool {
				if seen[x] {
					return true
				}
				seen[x] = true
				for _, ad := range adds {
					if ad.Block() == x {
						return true
					}
				}
				if nilAt(x) {
					return true
				}
				if len(x.Preds) == 0 {
					return false // reached the entry without adding and without knowing err == nil
				}
				for _, pr := range x.Preds {
					// the edge pr->x may establish err == nil
					edgeNil := false
					for _, c := range condsOnEdge(pr, x) {
						if bo, ok := c.Value.(*ssa.BinOp); ok {
							var y ssa.Value
							if core.IsNilConst(bo.Y) {
								y = bo.X
							} else if core.IsNilConst(bo.X) {
								y = bo.Y
							}
							if y == ssa.Value(errP) && ((bo.Op == token.EQL && c.Sense) || (bo.Op == token.NEQ && !c.Sense)) {
								edgeNil = true
							}
						}
					}
					if edgeNil {
						continue
					}
					if !visit(pr, seen) {
						return false
					}
				}
				return true
			}
			covered = visit(b, map[*ssa.BasicBlock]bool{})
		}
		if !covered {
			return false
		}
	}
	return true
}

// errIsNonNilAt: block b executes only when errV != nil.
func errIsNonNilAt(b *ssa.BasicBlock, errV ssa.Value) bool {
	for _, c := range core.CondsAt(b) {
		bo, ok := c.Value.(*ssa.BinOp)
		if !ok {
			continue
		}
		var other ssa.Value
		if bo.X == errV {
			other = bo.Y
		} else if bo.Y == errV {
			other = bo.X
		} else {
			continue
		}
		if !core.IsNilConst(other) {
			continue
		}
		if (bo.Op == token.NEQ && c.Sense) || (bo.Op == token.EQL && !c.Sense) {
			return true
		}
	}
	return false
}

// spilledNilIff handles functions with defers, where results are spilled to a cell: every store of a
// may-nil value to the cell that reaches ret must sit under "param k == nil".
func (a *nilAn) spilledNilIff(f *ssa.Function, cell *ssa.Alloc, ret *ssa.Return) int {
	k := -2
	for _, ref := range core.Refs(cell) {
		st, ok := ref.(*ssa.Store)
		if !ok || st.Addr != ssa.Value(cell) {
			continue
		}
		if !core.Reaches(st, ret) && st.Block() != ret.Block() {
			continue
		}
		if a.nonNil(st.Val, st, 0) {
			continue
		}
		kk := -1
		for pk, prm := range f.Params {
			if isNillable(prm.Type()) && paramNilAt(prm, st.Block()) {
				kk = pk
			}
		}
		if kk < 0 {
			return -1
		}
		if k == -2 {
			k = kk
		} else if k != kk {
			return -1
		}
	}
	if k == -2 {
		return -1
	}
	return k
}

// paramNilAt: block b executes only when prm == nil.
func paramNilAt(prm *ssa.Parameter, b *ssa.BasicBlock) bool {
	for _, c := range core.CondsAt(b) {
		bo, ok := c.Value.(*ssa.BinOp)
		if !ok {
			continue
		}
		var x ssa.Value
		if core.IsNilConst(bo.Y) {
			x = bo.X
		} else if core.IsNilConst(bo.X) {
			x = bo.Y
		}
		if x != ssa.Value(prm) {
			continue
		}
		if (bo.Op == token.EQL && c.Sense) || (bo.Op == token.NEQ && !c.Sense) {
			return true
		}
	}
	return false
}

// NilRule reports every dereference of a value not proven non-nil.
func NilRule(entry func(p *core.Prog) []*ssa.Parameter) Rule {
	return func(p *core.Prog, r *core.Report) {
		const rule = "NIL"
		a := newNilAn(p)
		if entry != nil {
			for _, prm := range entry(p) {
				a.entryMayNil[prm] = true
			}
			// entry parameters changed the assumptions: continue the fixpoint
			a.solve2()
		}
		total, trivial, nBad := 0, 0, 0
		seq := map[string]int{}
		for _, f := range p.Funcs {
			fn := core.FuncName(f)
			for _, d := range a.derefSites(f) {
				total++
				switch d.val.(type) {
				case *ssa.Alloc, *ssa.FieldAddr, *ssa.IndexAddr, *ssa.Global, *ssa.FreeVar, *ssa.MakeInterface, *ssa.MakeMap, *ssa.Function, *ssa.MakeClosure:
					trivial++
					continue
				}
				if prm, ok := d.val.(*ssa.Parameter); ok && !a.entryMayNil[prm] {
					trivial++ // obligation sits at the call sites (derefs summaries)
					continue
				}
				desc := describe(d.val)
				base := fn + ":" + desc + ":" + d.how
				seq[base]++
				key := base
				if seq[base] > 1 {
					key = fmt.Sprintf("%s#%d", base, seq[base])
				}
				if a.nonNil(d.val, d.at, 0) {
					r.OK(rule, key, p.Pos(posOf(d.at, f)), "proven non-nil (dominating nil test on the same value/access path, invariant field, or non-nil producing call)")
				} else {
					nBad++
					r.Bad(rule, key, p.Pos(posOf(d.at, f)), fmt.Sprintf("%s may be nil here and is dereferenced (%s) without a dominating nil test", desc, d.how))
				}
			}
		}
		r.Count("nil_deref_sites", total)
		r.Count("nil_deref_sites_nontrivial", total-trivial)
		r.Floor("nil_deref_sites", 1500)
		r.Floor("nil_deref_sites_nontrivial", 150)
		var mr []string
		for f, m := range a.mayRetNil {
			for i := range m {
				mr = append(mr, fmt.Sprintf("%s#%d", core.FuncName(f), i))
			}
		}
		for f, m := range a.nilIffParam {
			for i, k := range m {
				mr = append(mr, fmt.Sprintf("%s#%d iff param %d nil", core.FuncName(f), i, k))
			}
		}
		sortStrings(mr)
		r.Info["may_return_nil"] = mr
		var dp []string
		for f, m := range a.derefs {
			for k := range m {
				if k < len(f.Params) && isNillable(f.Params[k].Type()) {
					dp = append(dp, fmt.Sprintf("%s#%s", core.FuncName(f), f.Params[k].Name()))
				}
			}
		}
		sortStrings(dp)
		r.Info["derefs_param_without_test_count"] = len(dp)
		var nn []string
		for k, v := range a.fieldNonNil {
			if v {
				nn = append(nn, k)
			}
		}
		sortStrings(nn)
		r.Info["fields_never_nil"] = nn
		r.Note("NIL: %d dereference sites, %d non-trivial, %d not proven", total, total-trivial, nBad)
	}
}

func describe(v ssa.Value) string {
	if p, ok := core.StablePath(v); ok {
		return p
	}
	switch x := v.(type) {
	case *ssa.UnOp:
		return "*(" + describe(x.X) + ")"
	case *ssa.FieldAddr:
		_, fn, _ := core.FieldOf(x)
		return describe(x.X) + "." + fn
	case *ssa.Field:
		_, fn, _ := core.FieldOf(x)
		return describe(x.X) + "." + fn
	case *ssa.IndexAddr:
		return describe(x.X) + "[i]"
	case *ssa.Index:
		return describe(x.X) + "[i]"
	case *ssa.TypeAssert:
		return describe(x.X) + ".(type)"
	case *ssa.Next:
		return "range"
	case *ssa.Call:
		return "result of " + core.CalleeID(x)
	case *ssa.Extract:
		if c, ok := x.Tuple.(*ssa.Call); ok {
			return fmt.Sprintf("result #%d of %s", x.Index, core.CalleeID(c))
		}
		if nx, ok := x.Tuple.(*ssa.Next); ok {
			if rg, ok := nx.Iter.(*ssa.Range); ok {
				return fmt.Sprintf("range#%d over %s", x.Index, describe(rg.X))
			}
		}
		return fmt.Sprintf("#%d of %s", x.Index, describe(x.Tuple))
	case *ssa.Phi:
		if x.Comment != "" {
			return x.Comment
		}
		return "phi"
	case *ssa.Lookup:
		return "element of " + describe(x.X)
	}
	return fmt.Sprintf("value(%T)", v)
}
