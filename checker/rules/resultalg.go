package rules

import (
	"fmt"
	"go/token"
	"go/types"
	"sort"
	"strings"

	"golang.org/x/tools/go/ssa"

	"verifchk/core"
)

// RESULT-ALGEBRA — structural laws of the Result combinators (C20), checked on SSA.

type mergeSpec struct {
	fn       string
	variadic bool
	// required per-operand effects
	effects []string
}

var mergeSpecs = []mergeSpec{
	{"(*Result).Merge", true, []string{"Errors<-Errors", "Warnings<-Warnings", "MatchCount+=", "resetCaches", "redeem-if-flag"}},
	{"(*Result).MergeAsErrors", true, []string{"Errors<-Errors", "Errors<-Warnings", "MatchCount+=", "resetCaches", "redeem-if-flag"}},
	{"(*Result).MergeAsWarnings", true, []string{"Warnings<-Errors", "Warnings<-Warnings", "MatchCount+=", "resetCaches", "redeem-if-flag"}},
	{"(*Result).mergeForField", false, []string{"Errors<-Errors", "Warnings<-Warnings", "MatchCount+=", "resetCaches", "redeem-if-flag"}},
	{"(*Result).mergeForSlice", false, []string{"Errors<-Errors", "Warnings<-Warnings", "MatchCount+=", "resetCaches", "redeem-if-flag"}},
}

type effect struct {
	op string
	at ssa.Instruction
}

func fieldLoadOf(v ssa.Value, base ssa.Value, field string) bool {
	ld, ok := v.(*ssa.UnOp)
	if !ok || ld.Op != token.MUL {
		return false
	}
	fa, ok := ld.X.(*ssa.FieldAddr)
	if !ok || fa.X != base {
		return false
	}
	_, fn, _ := core.FieldOf(fa)
	return fn == field
}

func collectEffects(p *core.Prog, pi *poolInfo, f *ssa.Function, r, other ssa.Value, via ssa.Instruction, depth int) []effect {
	var out []effect
	loc := func(i ssa.Instruction) ssa.Instruction {
		if via != nil {
			return via
		}
		return i
	}
	core.EachInstr(f, func(i ssa.Instruction) {
		switch x := i.(type) {
		case *ssa.Call:
			if rc, arg := pi.isRedeemCall(x); rc != nil && arg == other {
				guard := false
				for _, c := range core.CondsAt(x.Block()) {
					if c.Sense && fieldLoadOf(c.Value, other, pooledMark) {
						guard = true
					}
				}
				if guard {
					out = append(out, effect{"redeem-if-flag", loc(i)})
				} else {
					out = append(out, effect{"redeem-unconditional", loc(i)})
				}
				return
			}
			g := core.StaticCallee(x)
			if g == nil || len(x.Call.Args) == 0 || x.Call.Args[0] != r {
				return
			}
			switch core.FuncName(g) {
			case "(*Result).AddErrors", "(*Result).AddWarnings":
				sink := strings.TrimPrefix(g.Name(), "Add")
				if len(x.Call.Args) == 2 {
					for _, src := range []string{"Errors", "Warnings"} {
						if fieldLoadOf(x.Call.Args[1], other, src) {
							out = append(out, effect{sink + "<-" + src, loc(i)})
						}
					}
				}
			case "(*Result).resetCaches":
				out = append(out, effect{"resetCaches", loc(i)})
			default:
				if p.InSubject(g) && depth < 2 && len(x.Call.Args) >= 2 {
					for k, a := range x.Call.Args[1:] {
						if a == other && g.Signature.Recv() != nil {
							out = append(out, collectEffects(p, pi, g, g.Params[0], g.Params[k+1], loc(i), depth+1)...)
						}
					}
				}
			}
		case *ssa.Store:
			fa, ok := x.Addr.(*ssa.FieldAddr)
			if !ok || fa.X != r {
				return
			}
			_, fn, _ := core.FieldOf(fa)
			if fn != "MatchCount" {
				return
			}
			bo, ok := x.Val.(*ssa.BinOp)
			if ok && bo.Op == token.ADD &&
				((fieldLoadOf(bo.X, r, "MatchCount") && fieldLoadOf(bo.Y, other, "MatchCount")) || (fieldLoadOf(bo.Y, r, "MatchCount") && fieldLoadOf(bo.X, other, "MatchCount"))) {
				out = append(out, effect{"MatchCount+=", loc(i)})
			} else {
				out = append(out, effect{"MatchCount-other-write", loc(i)})
			}
		}
	})
	return out
}

func ResultAlgebra(p *core.Prog, r *core.Report) {
	const rule = "RESULT-ALGEBRA"
	pi := discoverPools(p)
	na := newNilAn(p)
	nChecked := 0
	for _, ms := range mergeSpecs {
		f := p.Func(ms.fn)
		if f == nil {
			r.Unk(rule, ms.fn+":present", "-", "combinator not found")
			continue
		}
		recv := f.Params[0]
		var other ssa.Value
		var header *ssa.BasicBlock
		if ms.variadic {
			prm := f.Params[len(f.Params)-1]
			// element loads of the variadic parameter
			for _, ref := range core.Refs(prm) {
				if ia, ok := ref.(*ssa.IndexAddr); ok {
					for _, r2 := range core.Refs(ia) {
						if ld, ok := r2.(*ssa.UnOp); ok && ld.Op == token.MUL {
							other = ld
							// the loop header: block of the comparison idx < len(param)
							if bo, ok := ia.Index.(*ssa.BinOp); ok {
								header = bo.Block()
							}
						}
					}
				}
			}
			if other == nil || header == nil {
				r.Unk(rule, ms.fn+":loop", p.Pos(f.Pos()), "cannot find the loop over the variadic operands")
				continue
			}
			// every return only after the loop is exhausted (a nil operand must not end the merge)
			done := header.Succs[1]
			okRet := true
			for _, b := range f.Blocks {
				if ret, isRet := b.Instrs[len(b.Instrs)-1].(*ssa.Return); isRet {
					if !done.Dominates(b) {
						okRet = false
						r.Bad(rule, ms.fn+":all-operands", p.Pos(posOf(ret, f)), "the merge can return before all operands were visited (e.g. on a nil operand): later operands are silently dropped")
					}
					if len(ret.Results) != 1 || ret.Results[0] != ssa.Value(recv) {
						r.Bad(rule, ms.fn+":returns-receiver", p.Pos(posOf(ret, f)), "the combinator does not return its receiver")
					}
				}
			}
			if okRet {
				r.OK(rule, ms.fn+":all-operands", p.Pos(f.Pos()), "every return is dominated by the exhaustion edge of the loop over the operands")
			}
		} else {
			other = f.Params[len(f.Params)-1]
		}
		// the non-nil region: successor of the nil test
		var start *ssa.BasicBlock
		for _, b := range f.Blocks {
			ifi, ok := b.Instrs[len(b.Instrs)-1].(*ssa.If)
			if !ok {
				continue
			}
			bo, ok := ifi.Cond.(*ssa.BinOp)
			if !ok || !(bo.X == other && core.IsNilConst(bo.Y)) {
				continue
			}
			if bo.Op == token.NEQ {
				start = b.Succs[0]
			} else if bo.Op == token.EQL {
				start = b.Succs[1]
			}
		}
		if start == nil {
			r.Bad(rule, ms.fn+":nil-operand", p.Pos(f.Pos()), "no nil test of the operand: a nil operand is dereferenced instead of ignored")
			continue
		}
		r.OK(rule, ms.fn+":nil-operand", p.Pos(f.Pos()), "operand tested against nil before use")
		effs := collectEffects(p, pi, f, recv, other, nil, 0)
		byOp := map[string][]ssa.Instruction{}
		for _, e := range effs {
			byOp[e.op] = append(byOp[e.op], e.at)
		}
		isEnd := func(i ssa.Instruction) bool {
			if _, ok := i.(*ssa.Return); ok {
				return true
			}
			return header != nil && i.Block() == header && core.InstrIndex(i) == 0
		}
		for _, op := range ms.effects {
			nChecked++
			sites := byOp[op]
			key := ms.fn + ":" + op
			if op == "redeem-if-flag" {
				if len(sites) == 0 {
					r.Bad(rule, key, p.Pos(f.Pos()), "a merged operand flagged wantsRedeemOnMerge is not returned to the pool under that flag")
				} else {
					r.OK(rule, key, p.Pos(sites[0].Pos()), "operand redeemed exactly under its wantsRedeemOnMerge flag")
				}
				continue
			}
			if len(sites) == 0 {
				r.Bad(rule, key, p.Pos(f.Pos()), "required effect missing: "+explainEffect(op))
				continue
			}
			// must pass on every path of the non-nil region
			missing := false
			core.WalkBlock(start, nil, func(i ssa.Instruction) bool {
				for _, s := range sites {
					if i == s {
						return true
					}
				}
				if isEnd(i) {
					missing = true
					return true
				}
				return false
			})
			// at most once
			twice := false
			for _, s := range sites {
				core.Walk(s, nil, func(i ssa.Instruction) bool {
					if isEnd(i) {
						return true
					}
					for _, s2 := range sites {
						if i == s2 {
							twice = true
							return true
						}
					}
					return false
				})
			}
			switch {
			case missing:
				r.Bad(rule, key, p.Pos(sites[0].Pos()), "effect skipped on some path for a non-nil operand: "+explainEffect(op))
			case twice:
				r.Bad(rule, key, p.Pos(sites[0].Pos()), "effect applied more than once per operand: "+explainEffect(op))
			default:
				r.OK(rule, key, p.Pos(sites[0].Pos()), "applied exactly once per non-nil operand on every path")
			}
		}
		var extra []string
		for op := range byOp {
			want := false
			for _, w := range ms.effects {
				if w == op {
					want = true
				}
			}
			if !want {
				extra = append(extra, op)
			}
		}
		sort.Strings(extra)
		for _, op := range extra {
			r.Bad(rule, ms.fn+":unexpected:"+op, p.Pos(byOp[op][0].Pos()), "effect not in the documented matrix of this combinator: "+explainEffect(op))
		}
	}
	r.Count("result_merge_effects", nChecked)
	r.Floor("result_merge_effects", 18)

	// ---- AddErrors / AddWarnings -----------------------------------------------
	for _, fld := range []string{"Errors", "Warnings"} {
		fn := "(*Result).Add" + fld
		f := p.Func(fn)
		if f == nil {
			r.Unk(rule, fn+":present", "-", "not found")
			continue
		}
		recv := f.Params[0]
		prm := f.Params[1]
		var elem ssa.Value
		var outerHeader *ssa.BasicBlock
		for _, ref := range core.Refs(prm) {
			if ia, ok := ref.(*ssa.IndexAddr); ok {
				for _, r2 := range core.Refs(ia) {
					if ld, ok := r2.(*ssa.UnOp); ok {
						elem = ld
						if bo, ok := ia.Index.(*ssa.BinOp); ok {
							outerHeader = bo.Block()
						}
					}
				}
			}
		}
		if elem == nil {
			r.Unk(rule, fn+":loop", p.Pos(f.Pos()), "loop over the added messages not found")
			continue
		}
		// stores to fields of the receiver
		var appends []*ssa.Store
		okShape := true
		core.EachInstr(f, func(i ssa.Instruction) {
			st, ok := i.(*ssa.Store)
			if !ok {
				return
			}
			fa, ok := st.Addr.(*ssa.FieldAddr)
			if !ok || fa.X != ssa.Value(recv) {
				return
			}
			_, name, _ := core.FieldOf(fa)
			if name != fld {
				okShape = false
				r.Bad(rule, fn+":writes-other-field:"+name, p.Pos(st.Pos()), "writes a field other than its own category")
				return
			}
			call, ok := st.Val.(*ssa.Call)
			isAppend := false
			if ok {
				if b, ok := call.Call.Value.(*ssa.Builtin); ok && b.Name() == "append" && fieldLoadOf(call.Call.Args[0], recv, fld) {
					// appended slice holds exactly the element
					for _, e := range varargElems(call.Call.Args[1]) {
						if e == elem {
							isAppend = true
						}
					}
				}
			}
			if !isAppend {
				okShape = false
				r.Bad(rule, fn+":append-shape", p.Pos(st.Pos()), "the message list is written by something other than append(<same list>, <the new message>): order or content of earlier messages may change")
				return
			}
			appends = append(appends, st)
		})
		if len(appends) == 0 {
			r.Bad(rule, fn+":append", p.Pos(f.Pos()), "no append of the new message")
			continue
		}
		if okShape {
			r.OK(rule, fn+":append-shape", p.Pos(appends[0].Pos()), "only write: append(r."+fld+", e) — first-occurrence order preserved")
		}
		for _, st := range appends {
			// (a) under e != nil
			if na.condNonNil(elem, core.CondsAt(st.Block())) {
				r.OK(rule, fn+":nil-ignored", p.Pos(st.Pos()), "append only on the e != nil edge")
			} else {
				r.Bad(rule, fn+":nil-ignored", p.Pos(st.Pos()), "a nil message can be appended")
			}
			// (b') the duplicate search extracted into a helper: guarded by !h(<same list>, e) where h answers true
			//      exactly when the text of its message parameter equals the text of an element of its list parameter
			viaHelper := false
			for _, cd := range core.CondsAt(st.Block()) {
				hc, ok := cd.Value.(*ssa.Call)
				if !ok || cd.Sense {
					continue
				}
				h := core.StaticCallee(hc)
				if h == nil || !p.InSubject(h) {
					continue
				}
				li, ei, ok := textMembershipHelper(h)
				if !ok || li >= len(hc.Call.Args) || ei >= len(hc.Call.Args) {
					continue
				}
				if fieldLoadOf(hc.Call.Args[li], recv, fld) && hc.Call.Args[ei] == elem {
					viaHelper = true
				}
			}
			if viaHelper {
				r.OK(rule, fn+":dedupe-compare", p.Pos(st.Pos()), "e.Error() compared with the Error() of every element of r."+fld+" (through a membership helper)")
				r.OK(rule, fn+":dedupe-per-message", p.Pos(st.Pos()), "the guard is the helper's answer for this very message: recomputed for every message")
				continue
			}
			// (b) under a condition that depends on a comparison of e.Error() with the Error() of elements of the same list
			var cmp *ssa.BinOp
			core.EachInstr(f, func(i ssa.Instruction) {
				bo, ok := i.(*ssa.BinOp)
				if !ok || bo.Op != token.EQL {
					return
				}
				isErrOf := func(v ssa.Value) (ssa.Value, bool) {
					c, ok := v.(*ssa.Call)
					if !ok || !c.Call.IsInvoke() || c.Call.Method.Name() != "Error" {
						return nil, false
					}
					return c.Call.Value, true
				}
				a, ok1 := isErrOf(bo.X)
				b, ok2 := isErrOf(bo.Y)
				if !ok1 || !ok2 {
					return
				}
				fromList := func(v ssa.Value) bool {
					ld, ok := v.(*ssa.UnOp)
					if !ok {
						return false
					}
					ia, ok := ld.X.(*ssa.IndexAddr)
					return ok && fieldLoadOf(ia.X, recv, fld)
				}
				if (a == elem && fromList(b)) || (b == elem && fromList(a)) {
					cmp = bo
				}
			})
			if cmp == nil {
				r.Bad(rule, fn+":dedupe-compare", p.Pos(st.Pos()), "no comparison of the new message's text with the texts already in the same list")
				continue
			}
			r.OK(rule, fn+":dedupe-compare", p.Pos(cmp.Pos()), "e.Error() compared with the Error() of every element of r."+fld)
			// the comparison is made for every element of the list: inside the search loop nothing but the loop's
			// own condition decides whether it is evaluated (no `continue` on some other criterion before it)
			{
				var inner map[*ssa.BasicBlock]bool
				for _, loop := range allLoopsOf(f) {
					if loop[cmp.Block()] && (inner == nil || len(loop) < len(inner)) {
						inner = loop
					}
				}
				skipped := ""
				if inner != nil {
					var header *ssa.BasicBlock
					for b := range inner {
						dom := true
						for o := range inner {
							if !b.Dominates(o) {
								dom = false
							}
						}
						if dom {
							header = b
						}
					}
					for _, cd := range core.ControlConds(cmp.Block()) {
						if inner[cd.If.Block()] && cd.If.Block() != header && !cmp.Block().Dominates(cd.If.Block()) {
							skipped = p.Pos(cd.Value.Pos())
						}
					}
				}
				if skipped != "" {
					r.Bad(rule, fn+":dedupe-every-element", p.Pos(cmp.Pos()), "some elements of r."+fld+" are skipped by the duplicate search before their text is compared (condition at "+skipped+"): a message whose text is already present can be added a second time")
				} else {
					r.OK(rule, fn+":dedupe-every-element", p.Pos(cmp.Pos()), "the text comparison is evaluated for every element the search loop visits")
				}
			}
			// the deciding condition of the append: the innermost If whose false/true edge leads to it
			var decide ssa.Value
			for _, c := range core.CondsAt(st.Block()) {
				if c.Value == ssa.Value(cmp) {
					decide = c.Value
				}
				if phi, ok := c.Value.(*ssa.Phi); ok && phi.Type().String() == "bool" {
					decide = phi
				}
			}
			if decide == nil {
				r.Bad(rule, fn+":dedupe-guard", p.Pos(st.Pos()), "the append is not guarded by the result of the duplicate search")
				continue
			}
			// backward slice of the deciding value: must reach the comparison, must not be carried across
			// iterations of the outer loop (a 'found' flag that is not reset per message)
			slice := map[ssa.Value]bool{}
			var walk func(v ssa.Value)
			carried := false
			reachesCmp := false
			walk = func(v ssa.Value) {
				if slice[v] {
					return
				}
				slice[v] = true
				if v == ssa.Value(cmp) {
					reachesCmp = true
				}
				if phi, ok := v.(*ssa.Phi); ok {
					if phi.Block() == outerHeader {
						carried = true
					}
					for i, e := range phi.Edges {
						// control dependence of a boolean phi: the branch deciding the incoming edge
						pred := phi.Block().Preds[i]
						for _, c := range core.CondsAt(pred) {
							if c.Value == ssa.Value(cmp) {
								reachesCmp = true
							}
						}
						if ifi, ok := pred.Instrs[len(pred.Instrs)-1].(*ssa.If); ok && ifi.Cond == ssa.Value(cmp) {
							reachesCmp = true
						}
						walk(e)
					}
					return
				}
				if ins, ok := v.(ssa.Instruction); ok {
					for _, op := range ins.Operands(nil) {
						if op != nil && *op != nil {
							walk(*op)
						}
					}
				}
			}
			walk(decide)
			switch {
			case carried:
				r.Bad(rule, fn+":dedupe-per-message", p.Pos(st.Pos()), "the flag deciding whether a message is new is carried over from the previous message of the same call: after one duplicate, later distinct messages are lost")
			case !reachesCmp:
				r.Bad(rule, fn+":dedupe-per-message", p.Pos(st.Pos()), "the condition guarding the append does not depend on the duplicate comparison")
			default:
				r.OK(rule, fn+":dedupe-per-message", p.Pos(st.Pos()), "the guard depends on the comparison and is recomputed for every message")
			}
		}
	}

	// ---- queries -----------------------------------------------------------------
	// the queries: every exported method of *Result that takes nothing and answers something
	queries := []string{"IsValid", "HasErrors", "HasWarnings", "HasErrorsOrWarnings"}
	for _, f := range p.Funcs {
		if f.Parent() != nil || f.Signature.Recv() == nil || !isResultPtr(f.Signature.Recv().Type()) || f.Object() == nil || !f.Object().Exported() {
			continue
		}
		if f.Signature.Params().Len() != 0 || f.Signature.Results().Len() == 0 {
			continue
		}
		known := false
		for _, q := range queries {
			if q == core.BaseName(f) {
				known = true
			}
		}
		if !known {
			queries = append(queries, core.BaseName(f))
		}
	}
	r.Count("result_queries", len(queries))
	r.Floor("result_queries", 6)
	for _, q := range queries {
		f := p.Func("(*Result)." + q)
		if f == nil {
			r.Unk(rule, q+":present", "-", "query not found")
			continue
		}
		if na.derefs[f][0] {
			r.Bad(rule, q+":nil-safe", p.Pos(f.Pos()), "the query dereferences a nil receiver")
		} else {
			r.OK(rule, q+":nil-safe", p.Pos(f.Pos()), "receiver dereferenced only on the non-nil edge")
		}
	}
	if f := p.Func("(*Result).IsValid"); f != nil {
		ok := false
		for _, b := range f.Blocks {
			ret, isRet := b.Instrs[len(b.Instrs)-1].(*ssa.Return)
			if !isRet {
				continue
			}
			if bo, isBo := ret.Results[0].(*ssa.BinOp); isBo && bo.Op == token.EQL {
				if c, isC := bo.X.(*ssa.Call); isC {
					if bi, isB := c.Call.Value.(*ssa.Builtin); isB && bi.Name() == "len" && fieldLoadOf(c.Call.Args[0], f.Params[0], "Errors") {
						if k, isK := core.ConstInt(bo.Y); isK && k == 0 {
							ok = true
						}
					}
				}
			} else if k, isK := ret.Results[0].(*ssa.Const); isK && !paramNilAt(f.Params[0], b) {
				_ = k
				ok = false
			}
		}
		if ok {
			r.OK(rule, "IsValid:definition", p.Pos(f.Pos()), "validity is len(Errors) == 0")
		} else {
			r.Bad(rule, "IsValid:definition", p.Pos(f.Pos()), "validity is not exactly the absence of errors")
		}
	}
	if f := p.Func("(*Result).Inc"); f != nil {
		ok := false
		core.EachInstr(f, func(i ssa.Instruction) {
			if st, isSt := i.(*ssa.Store); isSt {
				if bo, isBo := st.Val.(*ssa.BinOp); isBo && bo.Op == token.ADD && fieldLoadOf(bo.X, f.Params[0], "MatchCount") {
					if k, isK := core.ConstInt(bo.Y); isK && k == 1 {
						ok = true
					}
				}
			}
		})
		if ok {
			r.OK(rule, "Inc:definition", p.Pos(f.Pos()), "MatchCount incremented by one")
		} else {
			r.Bad(rule, "Inc:definition", p.Pos(f.Pos()), "Inc does not add exactly one to MatchCount")
		}
	}
	resAlias(p, r, pi)
}

func explainEffect(op string) string {
	switch {
	case strings.Contains(op, "<-"):
		parts := strings.Split(op, "<-")
		return "the operand's " + parts[1] + " must be added to the receiver's " + parts[0]
	case op == "MatchCount+=":
		return "the operand's match count must be added once"
	case op == "resetCaches":
		return "cached schemata maps must be invalidated"
	case op == "MatchCount-other-write":
		return "MatchCount written by something other than += operand.MatchCount"
	case op == "redeem-unconditional":
		return "operand returned to the pool regardless of its wantsRedeemOnMerge flag"
	}
	return op
}

// resAlias — only elements, never slice headers, leave or enter a Result's message lists.
func resAlias(p *core.Prog, r *core.Report, pi *poolInfo) {
	const rule = "RES-ALIAS"
	res := pi.resultType
	if res == nil {
		return
	}
	isResPtr := func(t types.Type) bool { return core.NamedOf(t) == res }
	// functions whose []error parameter is only read element-wise
	copies := map[string]bool{"errors.CompositeValidationError": true}
	readsOnly := func(g *ssa.Function, k int) bool {
		if k >= len(g.Params) {
			return false
		}
		for _, ref := range core.Refs(g.Params[k]) {
			switch u := ref.(type) {
			case *ssa.IndexAddr:
				for _, r2 := range core.Refs(u) {
					if ld, ok := r2.(*ssa.UnOp); !ok || ld.Op != token.MUL {
						return false
					}
				}
			case *ssa.Call:
				if b, ok := u.Call.Value.(*ssa.Builtin); !ok || b.Name() != "len" {
					return false
				}
			case *ssa.DebugRef:
			default:
				return false
			}
		}
		return true
	}
	nLoads, nStores := 0, 0
	seq := map[string]int{}
	for _, f := range p.Funcs {
		fn := core.FuncName(f)
		core.EachInstr(f, func(i ssa.Instruction) {
			switch x := i.(type) {
			case *ssa.UnOp:
				fa, ok := x.X.(*ssa.FieldAddr)
				if !ok || x.Op != token.MUL || !isResPtr(fa.X.Type()) {
					return
				}
				_, name, _ := core.FieldOf(fa)
				if name != "Errors" && name != "Warnings" {
					return
				}
				nLoads++
				for _, ref := range core.Refs(x) {
					ok := false
					why := ""
					switch u := ref.(type) {
					case *ssa.IndexAddr, *ssa.DebugRef:
						ok = true
					case *ssa.Call:
						if b, isB := u.Call.Value.(*ssa.Builtin); isB {
							switch b.Name() {
							case "len", "cap":
								ok = true
							case "append":
								// append(sameField, ...) stored back to the same field
								if u.Call.Args[0] == ssa.Value(x) {
									for _, r2 := range core.Refs(u) {
										if st, isSt := r2.(*ssa.Store); isSt {
											if fa2, isFA := st.Addr.(*ssa.FieldAddr); isFA {
												_, n2, _ := core.FieldOf(fa2)
												if n2 == name && sameBase(fa2.X, fa.X) {
													ok = true
												}
											}
										}
									}
								}
								why = "appended to and stored somewhere else than the same list"
							}
						} else if g := core.StaticCallee(u); g != nil {
							for k, a := range u.Call.Args {
								if a != ssa.Value(x) {
									continue
								}
								if copies[core.QualName(g)] || (p.InSubject(g) && readsOnly(g, k)) {
									ok = true
								} else {
									why = "passed to " + core.QualName(g) + ", which is not known to copy the elements"
								}
							}
						}
					case *ssa.Slice:
						// re-slicing stored back to the same field (cleared)
						for _, r2 := range core.Refs(u) {
							if st, isSt := r2.(*ssa.Store); isSt {
								if fa2, isFA := st.Addr.(*ssa.FieldAddr); isFA {
									_, n2, _ := core.FieldOf(fa2)
									if n2 == name && sameBase(fa2.X, fa.X) {
										ok = true
									}
								}
							}
						}
						why = "re-sliced into another location"
					case *ssa.Store:
						why = "slice header stored into another location"
					case *ssa.Return:
						why = "slice header returned"
					default:
						why = fmt.Sprintf("used by %T", ref)
					}
					if !ok {
						base := fn + ":" + name + ":header-escapes"
						seq[base]++
						r.Bad(rule, fmt.Sprintf("%s#%d", base, seq[base]), p.Pos(posOf(ref, f)), "the slice header of Result."+name+" escapes ("+why+"): it shares its backing array with a result that may be recycled and overwritten by the next borrower, or later changes to one result show up in the other")
					}
				}
			case *ssa.Store:
				fa, ok := x.Addr.(*ssa.FieldAddr)
				if !ok || !isResPtr(fa.X.Type()) {
					return
				}
				_, name, _ := core.FieldOf(fa)
				if name != "Errors" && name != "Warnings" {
					return
				}
				nStores++
				key := fn + ":store-" + name
				seq[key]++
				key = fmt.Sprintf("%s#%d", key, seq[key])
				if storedFresh(x.Val, fa, name) {
					r.OK(rule, key, p.Pos(x.Pos()), "stores append(same list, …), a re-slice of the same list, or a freshly allocated slice")
				} else {
					r.Bad(rule, key, p.Pos(x.Pos()), "a slice that is not freshly allocated nor derived from the same list is stored into Result."+name+": two results share a backing array")
				}
			}
		})
	}
	r.Count("res_alias_loads", nLoads)
	r.Count("res_alias_stores", nStores)
	r.Floor("res_alias_loads", 15)
	r.Floor("res_alias_stores", 4)
	if nLoads > 0 {
		r.OK(rule, "loads", "-", fmt.Sprintf("%d loads of Result.Errors/Warnings: every use is element-wise, len, append-to-self or a copying callee", nLoads))
	}
}

func sameBase(a, b ssa.Value) bool {
	if a == b {
		return true
	}
	pa, oka := core.Path(a)
	pb, okb := core.Path(b)
	return oka && okb && pa == pb
}

func storedFresh(v ssa.Value, fa *ssa.FieldAddr, name string) bool {
	return storedFresh2(v, fa, name, map[ssa.Value]bool{})
}

func storedFresh2(v ssa.Value, fa *ssa.FieldAddr, name string, seen map[ssa.Value]bool) bool {
	if seen[v] {
		return true
	}
	seen[v] = true
	switch x := v.(type) {
	case *ssa.Const:
		return true
	case *ssa.MakeSlice:
		return true
	case *ssa.Slice:
		// slice of a fresh array (composite literal) or of the same list
		if al, ok := x.X.(*ssa.Alloc); ok {
			_ = al
			return true
		}
		if ld, ok := x.X.(*ssa.UnOp); ok {
			if fa2, ok := ld.X.(*ssa.FieldAddr); ok {
				_, n2, _ := core.FieldOf(fa2)
				return n2 == name && sameBase(fa2.X, fa.X)
			}
		}
	case *ssa.Call:
		if b, ok := x.Call.Value.(*ssa.Builtin); ok && b.Name() == "append" {
			return storedFresh2(x.Call.Args[0], fa, name, seen)
		}
		// a helper of the package that returns a slice it allocated itself (every return is fresh)
		if g := core.StaticCallee(x); g != nil && len(g.Blocks) > 0 && g.Signature.Results().Len() == 1 {
			return returnsFreshSlice(g, map[*ssa.Function]bool{})
		}
	case *ssa.Phi:
		for _, e := range x.Edges {
			if !storedFresh2(e, fa, name, seen) {
				return false
			}
		}
		return true
	case *ssa.UnOp:
		if fa2, ok := x.X.(*ssa.FieldAddr); ok {
			_, n2, _ := core.FieldOf(fa2)
			return n2 == name && sameBase(fa2.X, fa.X)
		}
	}
	return false
}

// returnsFreshSlice: every value g returns is a slice allocated inside g (make, composite literal, nil, appends to those).
func returnsFreshSlice(g *ssa.Function, open map[*ssa.Function]bool) bool {
	if open[g] {
		return true
	}
	open[g] = true
	var fresh func(v ssa.Value, seen map[ssa.Value]bool) bool
	fresh = func(v ssa.Value, seen map[ssa.Value]bool) bool {
		if seen[v] {
			return true
		}
		seen[v] = true
		switch x := v.(type) {
		case *ssa.Const:
			return x.Value == nil
		case *ssa.MakeSlice:
			return true
		case *ssa.Slice:
			_, isAlloc := x.X.(*ssa.Alloc)
			return isAlloc
		case *ssa.Phi:
			for _, e := range x.Edges {
				if !fresh(e, seen) {
					return false
				}
			}
			return true
		case *ssa.Call:
			if b, ok := x.Call.Value.(*ssa.Builtin); ok && b.Name() == "append" {
				return fresh(x.Call.Args[0], seen)
			}
			if h := core.StaticCallee(x); h != nil && len(h.Blocks) > 0 && h.Signature.Results().Len() == 1 {
				return returnsFreshSlice(h, open)
			}
		}
		return false
	}
	ok := true
	n := 0
	for _, b := range g.Blocks {
		if ret, isRet := b.Instrs[len(b.Instrs)-1].(*ssa.Return); isRet && len(ret.Results) == 1 {
			n++
			if !fresh(ret.Results[0], map[ssa.Value]bool{}) {
				ok = false
			}
		}
	}
	return ok && n > 0
}

// textMembershipHelper: h(list []error, e error) bool (in any parameter order) that returns true exactly on
// e.Error() == list[i].Error() for some i and false after the loop.
func textMembershipHelper(h *ssa.Function) (listParam, elemParam int, ok bool) {
	if h.Signature.Results().Len() != 1 || h.Signature.Results().At(0).Type().String() != "bool" || len(h.Blocks) == 0 {
		return 0, 0, false
	}
	var cmp *ssa.BinOp
	li, ei := -1, -1
	core.EachInstr(h, func(i ssa.Instruction) {
		bo, is := i.(*ssa.BinOp)
		if !is || bo.Op != token.EQL {
			return
		}
		errOf := func(v ssa.Value) ssa.Value {
			c, ok := v.(*ssa.Call)
			if !ok || !c.Call.IsInvoke() || c.Call.Method.Name() != "Error" {
				return nil
			}
			return c.Call.Value
		}
		a, b := errOf(bo.X), errOf(bo.Y)
		if a == nil || b == nil {
			return
		}
		for _, pair := range [][2]ssa.Value{{a, b}, {b, a}} {
			prm, isP := pair[0].(*ssa.Parameter)
			ld, isL := pair[1].(*ssa.UnOp)
			if !isP || !isL {
				continue
			}
			ia, isIA := ld.X.(*ssa.IndexAddr)
			if !isIA {
				continue
			}
			lp, isLP := ia.X.(*ssa.Parameter)
			if !isLP {
				continue
			}
			for k, q := range h.Params {
				if q == prm {
					ei = k
				}
				if q == lp {
					li = k
				}
			}
			cmp = bo
		}
	})
	if cmp == nil || li < 0 || ei < 0 {
		return 0, 0, false
	}
	// returns: true only under the comparison, false otherwise
	for _, b := range h.Blocks {
		ret, is := b.Instrs[len(b.Instrs)-1].(*ssa.Return)
		if !is {
			continue
		}
		k, isC := ret.Results[0].(*ssa.Const)
		if !isC || k.Value == nil {
			return 0, 0, false
		}
		if k.Value.ExactString() == "true" {
			under := false
			for _, cd := range core.CondsAt(b) {
				if cd.Value == ssa.Value(cmp) && cd.Sense {
					under = true
				}
			}
			if !under {
				return 0, 0, false
			}
		}
	}
	return li, ei, true
}
