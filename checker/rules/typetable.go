package rules

import (
	"fmt"
	"go/constant"
	"go/token"
	"go/types"
	"sort"
	"strings"

	"golang.org/x/tools/go/ssa"

	"verifchk/core"
)

// TYPE-TABLE — the `type` keyword decided exactly on a finite table: (*typeValidator).Validate is evaluated by
// the D-DYN interpreter (constant propagation over the dynamic type of the datum, nothing runs) with the
// validator's own fields bound to constants — the declared type list, nullable, format — for every
// combination of
//   datum  ∈ { null, true, "a", 1.0, 1.5 (float64), int64(1), int32(1), uint(1), float32(1.5), []interface{}, []string, map[string]interface{} }
//   type   ∈ { each primitive type alone, [string,null], [integer,string] }
//   nullable ∈ {false, true}, format ∈ { "", "date" (only where the format cannot matter: see below) }
// and the outcome (an InvalidType error is constructed / the empty result is returned) is compared with draft 4:
// valid iff the JSON type of the datum is in the list, an integral number also being an integer, a Go integer
// also being a number, null also being admitted by nullable. With a non-empty format the comparison is made
// only for data that are not numbers against lists without numeric types (there the format must not change the
// verdict of `type`; numeric formats carry width rules that are not decided here).

type ttDatum struct {
	name                     string
	val                      aval
	jtype                    string // JSON type; "integer" for Go integers and integral floats is handled below
	integral, goInt, numeric bool
}

func TypeTable(p *core.Prog, r *core.Report) {
	const rule = "TYPE-TABLE"
	f := p.Func("(*typeValidator).Validate")
	ctor := p.Func("newTypeValidator")
	if f == nil || ctor == nil {
		r.Unk(rule, "entry", "-", "(*typeValidator).Validate / newTypeValidator not found")
		return
	}
	// which field holds the type list, nullable, format: from the constructor's parameters, by type and position
	var fType, fNullable, fFormat string
	strings_ := 0
	for k, prm := range ctor.Params {
		ts := prm.Type().String()
		fields := ctorParamFields(ctor, k)
		if len(fields) != 1 {
			continue
		}
		switch {
		case strings.HasSuffix(ts, "spec.StringOrArray"):
			fType = fields[0]
		case ts == "bool":
			fNullable = fields[0]
		case ts == "string":
			strings_++
			if strings_ == 3 { // path, in, format
				fFormat = fields[0]
			}
		}
	}
	if fType == "" || fNullable == "" || fFormat == "" {
		r.Unk(rule, "fields", p.Pos(f.Pos()), "cannot resolve the fields of the type validator that hold type / nullable / format")
		return
	}
	// loads of those fields off the receiver inside Validate
	loads := map[string][]ssa.Value{}
	core.EachInstr(f, func(i ssa.Instruction) {
		u, ok := i.(*ssa.UnOp)
		if !ok || u.Op != token.MUL {
			return
		}
		fa, ok := u.X.(*ssa.FieldAddr)
		if !ok {
			return
		}
		// the receiver itself or its spill cell (the deferred closure captures it)
		if pth, ok := core.StablePath(fa.X); !ok || pth != f.Params[0].Name() {
			return
		}
		_, name, _ := core.FieldOf(fa)
		loads[name] = append(loads[name], u)
	})
	if len(loads[fType]) == 0 || len(loads[fFormat]) == 0 {
		r.Unk(rule, "loads", p.Pos(f.Pos()), "the type validator does not read its type list / format where expected")
		return
	}
	// return blocks: error (value of a call) vs valid (anything else)
	cs := func(s string) constant.Value { return constant.MakeString(s) }
	list := func(ts ...string) aval {
		a := aval{k: avList}
		for _, t := range ts {
			a.set = append(a.set, cs(t))
		}
		return a
	}
	fl := func(a atom, v float64) aval { return aval{k: avDyn, a: a, c: constant.MakeFloat64(v)} }
	in := func(a atom, v int64) aval { return aval{k: avDyn, a: a, c: constant.MakeInt64(v)} }
	data := []ttDatum{
		{"null", dyn(aNil), "null", false, false, false},
		{"true", dyn(aBool), "boolean", false, false, false},
		{`"a"`, dyn(aString), "string", false, false, false},
		{"1.0", fl(aFloat64, 1), "number", true, false, true},
		{"1.5", fl(aFloat64, 1.5), "number", false, false, true},
		{"int64(1)", in(aInt64, 1), "integer", true, true, true},
		{"int32(1)", in(aInt32, 1), "integer", true, true, true},
		{"uint(1)", in(aUint, 1), "integer", true, true, true},
		{"float32(1.5)", fl(aFloat32, 1.5), "number", false, false, true},
		{"[]interface{}", dyn(aSliceIface), "array", false, false, false},
		{"map[string]interface{}", dyn(aMapIface), "object", false, false, false},
	}
	if Deep {
		data = append(data,
			ttDatum{"int(0)", in(aInt, 0), "integer", true, true, true},
			ttDatum{"int8(-1)", in(aInt8, -1), "integer", true, true, true},
			ttDatum{"int16(2)", in(aInt16, 2), "integer", true, true, true},
			ttDatum{"uint8(3)", in(aUint8, 3), "integer", true, true, true},
			ttDatum{"uint16(3)", in(aUint16, 3), "integer", true, true, true},
			ttDatum{"uint32(3)", in(aUint32, 3), "integer", true, true, true},
			ttDatum{"uint64(3)", in(aUint64, 3), "integer", true, true, true},
			ttDatum{"float32(2)", fl(aFloat32, 2), "number", true, false, true},
			ttDatum{"-0.5", fl(aFloat64, -0.5), "number", false, false, true},
			ttDatum{"0.0", fl(aFloat64, 0), "number", true, false, true},
		)
	}
	// fractional values so large that a relative tolerance mistakes them for integers (reported under a key of
	// their own: the integrality test is a dependency's, swag.IsFloat64AJSONInteger)
	nPlain := len(data)
	data = append(data,
		ttDatum{"1000000000.5", fl(aFloat64, 1000000000.5), "number", false, false, true},
		ttDatum{"250000001.5", fl(aFloat64, 250000001.5), "number", false, false, true},
	)
	typeLists := [][]string{{"null"}, {"boolean"}, {"string"}, {"integer"}, {"number"}, {"array"}, {"object"}, {"string", "null"}, {"integer", "string"}}
	if Deep {
		typeLists = append(typeLists, []string{"number", "null"}, []string{"array", "object"}, []string{"boolean", "integer", "null"}, []string{"number", "integer"})
	}
	na := newNilAn(p)
	var bad, undet, badTol []string
	n := 0
	for dIdx, d := range data {
		for _, tl := range typeLists {
			for _, nullable := range []bool{false, true} {
				for _, format := range []string{"", "date"} {
					hasNumeric := false
					for _, t := range tl {
						if t == "integer" || t == "number" {
							hasNumeric = true
						}
					}
					if format != "" && (d.numeric || hasNumeric || d.jtype == "null") {
						continue
					}
					// draft 4
					want := false
					for _, t := range tl {
						switch {
						case t == d.jtype:
							want = true
						case t == "integer" && d.jtype == "number" && d.integral:
							want = true
						case t == "number" && d.goInt:
							want = true
						}
					}
					if d.jtype == "null" && nullable {
						want = true
					}
					di := newRegionInterp(p, na)
					for _, l := range loads[fType] {
						di.preset[l] = list(tl...)
					}
					for _, l := range loads[fNullable] {
						di.preset[l] = cBool(nullable)
					}
					for _, l := range loads[fFormat] {
						di.preset[l] = aval{k: avConst, c: cs(format)}
					}
					di.run(f, []aval{{k: avValid}, d.val}, 0)
					errd := false
					for _, t := range di.trace {
						if strings.HasSuffix(t.callee, ".InvalidType") {
							errd = true
						}
					}
					// did the run also reach a return that is not an error? (both = undetermined)
					okRet, errRet := false, false
					for _, b := range f.Blocks {
						if !di.reached[b] {
							continue
						}
						if ret, isRet := b.Instrs[len(b.Instrs)-1].(*ssa.Return); isRet && len(ret.Results) == 1 {
							if returnsErrorResult(ret.Results[0], 0) {
								errRet = true
							} else {
								okRet = true
							}
						}
					}
					n++
					caseName := fmt.Sprintf("type=%v nullable=%v format=%q data=%s", tl, nullable, format, d.name)
					switch {
					case okRet && (errRet || errd):
						undet = append(undet, caseName)
					case !okRet && !errRet:
						undet = append(undet, caseName+" (no return reached)")
					case want && !okRet:
						if dIdx >= nPlain {
							badTol = append(badTol, caseName+": rejected, draft 4 says valid")
						} else {
							bad = append(bad, caseName+": rejected, draft 4 says valid")
						}
					case !want && okRet:
						if dIdx >= nPlain {
							badTol = append(badTol, caseName+": accepted, draft 4 says invalid type")
						} else {
							bad = append(bad, caseName+": accepted, draft 4 says invalid type")
						}
					}
				}
			}
		}
	}
	r.Count("type_table_cases", n)
	r.Floor("type_table_cases", 200)
	pos := p.Pos(f.Pos())
	if len(undet) > 0 {
		more := ""
		if len(undet) > 3 {
			more = fmt.Sprintf(" … %d more", len(undet)-3)
			undet = undet[:3]
		}
		r.Unk(rule, "typeValidator:determined", pos, "the outcome could not be determined by constant propagation for: "+strings.Join(undet, "; ")+more)
	} else {
		r.OK(rule, "typeValidator:determined", pos, fmt.Sprintf("all %d cases evaluate to a single outcome", n))
	}
	if len(bad) > 0 {
		more := ""
		if len(bad) > 4 {
			more = fmt.Sprintf(" … %d more", len(bad)-4)
			bad = bad[:4]
		}
		r.Bad(rule, "typeValidator:draft4", pos, "the type validator disagrees with draft 4: "+strings.Join(bad, "; ")+more)
	} else {
		r.OK(rule, "typeValidator:draft4", pos, fmt.Sprintf("the verdict of `type` agrees with draft 4 on all %d cases of the table", n))
	}
	if len(badTol) > 0 {
		more := ""
		if len(badTol) > 3 {
			more = fmt.Sprintf(" … %d more", len(badTol)-3)
			badTol = badTol[:3]
		}
		r.Bad(rule, "typeValidator:integrality-tolerance", pos, "a number with a fractional part is taken for an integer when it is large enough for the relative tolerance (1e-9) of swag.IsFloat64AJSONInteger: "+strings.Join(badTol, "; ")+more)
	} else {
		r.OK(rule, "typeValidator:integrality-tolerance", pos, "no large fractional value of the table is taken for an integer")
	}
	_ = types.Typ
	// the reverse lookup from Go types to (type, format): every named type of strfmt / swag the switch knows by
	// value it also knows by pointer, and both lead to the same answer (a case list that loses one of the two makes
	// the verdict depend on whether the caller passes the value or its address)
	if g := p.Func("(*typeValidator).schemaInfoForType"); g != nil {
		target := map[string]*ssa.BasicBlock{}
		core.EachInstr(g, func(i ssa.Instruction) {
			ta, ok := i.(*ssa.TypeAssert)
			if !ok || !ta.CommaOk {
				return
			}
			for _, ref := range core.Refs(ta) {
				ex, isEx := ref.(*ssa.Extract)
				if !isEx || ex.Index != 1 {
					continue
				}
				for _, r2 := range core.Refs(ex) {
					if ifi, isIf := r2.(*ssa.If); isIf && ifi.Cond == ssa.Value(ex) {
						tb := ifi.Block().Succs[0]
						for len(tb.Instrs) == 1 {
							if _, isJ := tb.Instrs[0].(*ssa.Jump); !isJ {
								break
							}
							tb = tb.Succs[0]
						}
						target[ta.AssertedType.String()] = tb
					}
				}
			}
		})
		var lonely []string
		nPairs := 0
		for ts, tb := range target {
			if strings.HasPrefix(ts, "*") || !(strings.Contains(ts, "/strfmt.") || strings.Contains(ts, "/swag.")) {
				continue
			}
			nPairs++
			if pb, ok := target["*"+ts]; !ok {
				lonely = append(lonely, ts+" (known by value only)")
			} else if pb != tb {
				lonely = append(lonely, ts+" (value and pointer lead to different answers)")
			}
		}
		for ts := range target {
			if strings.HasPrefix(ts, "*") && (strings.Contains(ts, "/strfmt.") || strings.Contains(ts, "/swag.")) {
				if _, ok := target[strings.TrimPrefix(ts, "*")]; !ok {
					lonely = append(lonely, ts+" (known by pointer only)")
				}
			}
		}
		sort.Strings(lonely)
		r.Count("format_type_pairs", nPairs)
		r.Floor("format_type_pairs", 20)
		if len(lonely) > 0 {
			r.Bad(rule, "schemaInfoForType:value-and-pointer", p.Pos(g.Pos()), "the type switch knows these formatted types in one of their two forms only: "+strings.Join(lonely, "; "))
		} else {
			r.OK(rule, "schemaInfoForType:value-and-pointer", p.Pos(g.Pos()), fmt.Sprintf("each of the %d formatted types is known by value and by pointer, with the same answer", nPairs))
		}
	}
}

// returnsErrorResult: the returned *Result is the value of a call (errorHelp.sErr(...)), possibly through φs
// and the defer spill cell; the empty result is a load of a package-level variable.
func returnsErrorResult(v ssa.Value, d int) bool {
	if d > 6 {
		return false
	}
	switch x := v.(type) {
	case *ssa.Call:
		return true
	case *ssa.Phi:
		for _, e := range x.Edges {
			if returnsErrorResult(e, d+1) {
				return true
			}
		}
	case *ssa.UnOp:
		if x.Op == token.MUL {
			if al, ok := x.X.(*ssa.Alloc); ok {
				// spilled result: decided by the stores that reach this load in the same block
				var last ssa.Value
				for _, i := range x.Block().Instrs {
					if i == ssa.Instruction(x) {
						break
					}
					if st, ok := i.(*ssa.Store); ok && st.Addr == ssa.Value(al) {
						last = st.Val
					}
				}
				if last != nil {
					return returnsErrorResult(last, d+1)
				}
			}
		}
	}
	return false
}
