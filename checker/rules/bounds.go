package rules

import (
	"fmt"
	"go/constant"
	"go/token"
	"go/types"

	"golang.org/x/tools/go/ssa"

	"verifchk/core"
)

// D-BOUND — every index / slice expression with a non-constant operand is within bounds.
// A small linear reasoner over SSA: values are normalised to base+c where base is an SSA value, the
// length of a container ("len:X") or absent; facts come from dominating branch conditions and from
// monotone loop phis (phi(init, phi±k)).

type lin struct {
	base string // "" for constants, "len:<id>" for lengths, "v:<name>" for other SSA values
	c    int64
	ok   bool
}

type boundCtx struct {
	p *core.Prog
	f *ssa.Function
}

func valID(v ssa.Value) string {
	if p, ok := core.Path(v); ok {
		return p
	}
	return "%" + v.Name()
}

// lenOf: is v the length of some container X? returns the id of X.
func lenOf(v ssa.Value) (string, bool) {
	c, ok := v.(*ssa.Call)
	if !ok {
		return "", false
	}
	if b, ok := c.Call.Value.(*ssa.Builtin); ok && b.Name() == "len" {
		return valID(c.Call.Args[0]), true
	}
	if g := core.StaticCallee(c); g != nil && core.QualName(g) == "reflect.Value.Len" {
		return valID(c.Call.Args[0]), true
	}
	return "", false
}

func norm(v ssa.Value, depth int) lin {
	if depth > 10 {
		return lin{}
	}
	switch x := v.(type) {
	case *ssa.Const:
		if x.Value != nil && x.Value.Kind() == constant.Int {
			if i, exact := constant.Int64Val(x.Value); exact {
				return lin{"", i, true}
			}
		}
		return lin{}
	case *ssa.Convert:
		if b, ok := x.X.Type().Underlying().(*types.Basic); ok && b.Info()&types.IsInteger != 0 {
			return norm(x.X, depth+1)
		}
		return lin{"v:" + valID(v), 0, true}
	case *ssa.ChangeType:
		return norm(x.X, depth+1)
	case *ssa.BinOp:
		if x.Op == token.ADD || x.Op == token.SUB {
			a, b := norm(x.X, depth+1), norm(x.Y, depth+1)
			if a.ok && b.ok {
				if b.base == "" {
					if x.Op == token.ADD {
						return lin{a.base, a.c + b.c, true}
					}
					return lin{a.base, a.c - b.c, true}
				}
				if a.base == "" && x.Op == token.ADD {
					return lin{b.base, a.c + b.c, true}
				}
			}
			return lin{"v:" + valID(v), 0, true}
		}
	}
	if id, ok := lenOf(v); ok {
		return lin{"len:" + id, 0, true}
	}
	if prm, ok := v.(*ssa.Parameter); ok {
		if other := paramIsLenOf(prm); other != nil {
			return lin{"len:" + valID(other), 0, true}
		}
	}
	return lin{"v:" + valID(v), 0, true}
}

// boundsProg gives the call-site summaries below access to the whole program (set by Bounds).
var boundsProg *core.Prog

// callArgs: the arguments passed for parameter prm at every call site of its (unexported, never address-taken)
// function; nil when the callers are not all known.
func callArgs(prm *ssa.Parameter) (args []ssa.Value, sites []ssa.CallInstruction) {
	f := prm.Parent()
	if boundsProg == nil || f == nil || f.Parent() != nil {
		return nil, nil
	}
	if o := f.Object(); o == nil || o.Exported() {
		return nil, nil
	}
	k := -1
	for i, q := range f.Params {
		if q == prm {
			k = i
		}
	}
	known := true
	for _, g := range boundsProg.Funcs {
		core.EachInstr(g, func(i ssa.Instruction) {
			for _, op := range i.Operands(nil) {
				if op != nil && *op == ssa.Value(f) {
					if c, isCall := i.(ssa.CallInstruction); !isCall || c.Common().Value != ssa.Value(f) {
						known = false
					}
				}
			}
			if c, ok := i.(ssa.CallInstruction); ok && core.StaticCallee(c) == f && k >= 0 && k < len(c.Common().Args) {
				args = append(args, c.Common().Args[k])
				sites = append(sites, c)
			}
		})
	}
	if !known || len(args) == 0 {
		return nil, nil
	}
	return args, sites
}

// paramIsLenOf: at every call site the argument for prm is the length (len / reflect.Value.Len) of the very
// value passed for another parameter of the same function — the length travels with its container.
func paramIsLenOf(prm *ssa.Parameter) *ssa.Parameter {
	if b, ok := prm.Type().Underlying().(*types.Basic); !ok || b.Info()&types.IsInteger == 0 {
		return nil
	}
	args, sites := callArgs(prm)
	if args == nil {
		return nil
	}
	f := prm.Parent()
	for j, other := range f.Params {
		if other == prm {
			continue
		}
		all := true
		for n, a := range args {
			c, ok := a.(*ssa.Call)
			if !ok {
				all = false
				break
			}
			isLen := false
			if b, ok := c.Call.Value.(*ssa.Builtin); ok && b.Name() == "len" {
				isLen = true
			}
			if g := core.StaticCallee(c); g != nil && core.QualName(g) == "reflect.Value.Len" {
				isLen = true
			}
			if !isLen || j >= len(sites[n].Common().Args) || c.Call.Args[0] != sites[n].Common().Args[j] {
				all = false
				break
			}
		}
		if all {
			return other
		}
	}
	return nil
}

// paramNonNeg: every call site passes a value that is a non-negative constant, a length, or a φ of those.
func paramNonNeg(prm *ssa.Parameter) bool {
	args, _ := callArgs(prm)
	if args == nil {
		return false
	}
	var nn func(v ssa.Value, d int) bool
	nn = func(v ssa.Value, d int) bool {
		if d > 5 {
			return false
		}
		if k, ok := core.ConstInt(v); ok {
			return k >= 0
		}
		if _, ok := lenOf(v); ok {
			return true
		}
		if ph, ok := v.(*ssa.Phi); ok {
			for _, e := range ph.Edges {
				if !nn(e, d+1) {
					return false
				}
			}
			return true
		}
		return false
	}
	for _, a := range args {
		if !nn(a, 0) {
			return false
		}
	}
	return true
}

type fact struct { // a.base + a.c  <  b.base + b.c   (strict) or <=
	a, b   lin
	strict bool
}

// factsAt collects relational facts known at block blk.
func factsAt(blk *ssa.BasicBlock) []fact {
	var out []fact
	// library contracts: the size returned by utf8.DecodeRuneInString(s) / DecodeRune(b) is within [0, len]
	core.EachInstr(blk.Parent(), func(i ssa.Instruction) {
		ex, ok := i.(*ssa.Extract)
		if !ok || ex.Index != 1 {
			return
		}
		c, ok := ex.Tuple.(*ssa.Call)
		if !ok {
			return
		}
		g := core.StaticCallee(c)
		if g == nil || (core.QualName(g) != "utf8.DecodeRuneInString" && core.QualName(g) != "utf8.DecodeRune") {
			return
		}
		v := norm(ex, 0)
		out = append(out, fact{lin{"", 0, true}, v, false}, fact{v, lin{"len:" + valID(c.Call.Args[0]), 0, true}, false})
	})
	for _, prm := range blk.Parent().Params {
		if b, ok := prm.Type().Underlying().(*types.Basic); ok && b.Info()&types.IsInteger != 0 && paramNonNeg(prm) {
			out = append(out, fact{lin{"", 0, true}, norm(prm, 0), false})
		}
	}
	for _, c := range core.CondsAt(blk) {
		bo, ok := c.Value.(*ssa.BinOp)
		if !ok {
			continue
		}
		a, b := norm(bo.X, 0), norm(bo.Y, 0)
		if !a.ok || !b.ok {
			continue
		}
		op := bo.Op
		if !c.Sense {
			switch op {
			case token.LSS:
				op = token.GEQ
			case token.LEQ:
				op = token.GTR
			case token.GTR:
				op = token.LEQ
			case token.GEQ:
				op = token.LSS
			case token.EQL:
				op = token.NEQ
			case token.NEQ:
				op = token.EQL
			default:
				continue
			}
		}
		switch op {
		case token.LSS:
			out = append(out, fact{a, b, true})
		case token.LEQ:
			out = append(out, fact{a, b, false})
		case token.GTR:
			out = append(out, fact{b, a, true})
		case token.GEQ:
			out = append(out, fact{b, a, false})
		case token.EQL:
			out = append(out, fact{a, b, false}, fact{b, a, false})
		}
	}
	return out
}

// phiBounds: monotone loop variables. Returns (lower, hasLower, upper, hasUpper) as linear forms.
func phiBounds(v ssa.Value) (lo lin, hasLo bool, hi lin, hasHi bool) {
	phi, ok := v.(*ssa.Phi)
	if !ok {
		return
	}
	var inits []lin
	inc, dec := true, true
	for _, e := range phi.Edges {
		n := norm(e, 0)
		if !n.ok {
			return lin{}, false, lin{}, false
		}
		if n.base == "v:"+valID(phi) {
			if n.c < 0 {
				inc = false
			}
			if n.c > 0 {
				dec = false
			}
			continue
		}
		inits = append(inits, n)
	}
	if len(inits) != 1 {
		return lin{}, false, lin{}, false
	}
	if inc {
		lo, hasLo = inits[0], true
	}
	if dec {
		hi, hasHi = inits[0], true
	}
	return
}

// proveLE tries to show x + dx <= y + dy (strict if strict) using facts, depth-limited transitivity.
func proveLess(x, y lin, strict bool, facts []fact, v2 map[string]ssa.Value, depth int) bool {
	if !x.ok || !y.ok {
		return false
	}
	if x.base == y.base {
		if strict {
			return x.c < y.c
		}
		return x.c <= y.c
	}
	// lengths are non-negative
	if x.base == "" && len(y.base) > 4 && y.base[:4] == "len:" {
		if strict && x.c < y.c {
			return true
		}
		if !strict && x.c <= y.c {
			return true
		}
	}
	if depth > 3 {
		return false
	}
	for _, f := range facts {
		// use fact f.a (<|<=) f.b : if x <= f.a-ish and f.b <= y-ish
		if f.a.base == x.base {
			// x = f.a + (x.c - f.a.c);  f.a < f.b  =>  x < f.b + (x.c - f.a.c)
			mid := lin{f.b.base, f.b.c + (x.c - f.a.c), true}
			st := strict && !f.strict
			// need mid (<=, or < when we still owe strictness) y
			if proveLess(mid, y, st, facts, v2, depth+1) {
				return true
			}
			if f.strict && !strict {
				// x < mid and mid <= y+1 suffices for x <= y  (integers)
				if proveLess(mid, lin{y.base, y.c + 1, true}, false, facts, v2, depth+1) {
					return true
				}
			}
			if f.strict && strict {
				// x < mid, integers: x <= mid-1; need mid-1 < y  i.e. mid <= y
				if proveLess(mid, y, false, facts, v2, depth+1) {
					return true
				}
			}
		}
	}
	// plain (non-loop) phis: the relation must hold for every incoming value
	plain := func(base string) ([]lin, bool) {
		pv, ok := v2[base]
		if !ok {
			return nil, false
		}
		phi := pv.(*ssa.Phi)
		var es []lin
		for _, e := range phi.Edges {
			n := norm(e, 0)
			if !n.ok || n.base == base {
				return nil, false
			}
			es = append(es, n)
		}
		return es, true
	}
	if es, ok := plain(y.base); ok {
		all := true
		for _, e := range es {
			if !proveLess(x, lin{e.base, e.c + y.c, true}, strict, facts, v2, depth+1) {
				all = false
				break
			}
		}
		if all {
			return true
		}
	}
	if es, ok := plain(x.base); ok {
		all := true
		for _, e := range es {
			if !proveLess(lin{e.base, e.c + x.c, true}, y, strict, facts, v2, depth+1) {
				all = false
				break
			}
		}
		if all {
			return true
		}
	}
	// monotone phis
	if len(x.base) > 2 && x.base[:2] == "v:" {
		if pv, ok := v2[x.base]; ok {
			if _, _, hi, hasHi := phiBounds(pv); hasHi {
				if proveLess(lin{hi.base, hi.c + x.c, true}, y, strict, facts, v2, depth+1) {
					return true
				}
			}
		}
	}
	if len(y.base) > 2 && y.base[:2] == "v:" {
		if pv, ok := v2[y.base]; ok {
			if lo, hasLo, _, _ := phiBounds(pv); hasLo {
				if proveLess(x, lin{lo.base, lo.c + y.c, true}, strict, facts, v2, depth+1) {
					return true
				}
			}
		}
	}
	return false
}

func collectVals(f *ssa.Function) map[string]ssa.Value {
	m := map[string]ssa.Value{}
	core.EachInstr(f, func(i ssa.Instruction) {
		if v, ok := i.(*ssa.Phi); ok {
			m["v:"+valID(v)] = v
		}
	})
	return m
}

type boundSite struct {
	at        ssa.Instruction
	container ssa.Value
	idx       ssa.Value // index, or nil
	lo, hi    ssa.Value // slice bounds (may be nil)
	fixedLen  int64     // array length, -1 for slices/strings
	what      string
}

func boundSites(f *ssa.Function) []boundSite {
	var out []boundSite
	arrLen := func(t types.Type) int64 {
		if p, ok := t.Underlying().(*types.Pointer); ok {
			t = p.Elem()
		}
		if a, ok := t.Underlying().(*types.Array); ok {
			return a.Len()
		}
		return -1
	}
	core.EachInstr(f, func(i ssa.Instruction) {
		switch x := i.(type) {
		case *ssa.IndexAddr:
			out = append(out, boundSite{at: i, container: x.X, idx: x.Index, fixedLen: arrLen(x.X.Type()), what: "index"})
		case *ssa.Index:
			out = append(out, boundSite{at: i, container: x.X, idx: x.Index, fixedLen: arrLen(x.X.Type()), what: "index"})
		case *ssa.Lookup:
			if b, ok := x.X.Type().Underlying().(*types.Basic); ok && b.Info()&types.IsString != 0 {
				out = append(out, boundSite{at: i, container: x.X, idx: x.Index, fixedLen: -1, what: "string index"})
			}
		case *ssa.Slice:
			if x.Low == nil && x.High == nil {
				return
			}
			out = append(out, boundSite{at: i, container: x.X, lo: x.Low, hi: x.High, fixedLen: arrLen(x.X.Type()), what: "slice expression"})
		case *ssa.Call:
			if g := core.StaticCallee(x); g != nil && core.QualName(g) == "reflect.Value.Index" {
				out = append(out, boundSite{at: i, container: x.Call.Args[0], idx: x.Call.Args[1], fixedLen: -1, what: "reflect.Value.Index"})
			}
		}
	})
	return out
}

// Bounds checks every index/slice site of the functions in scope (nil scope = all).
func Bounds(scope func(p *core.Prog) (map[*ssa.Function]bool, string)) Rule {
	return func(p *core.Prog, r *core.Report) {
		boundsProg = p
		const rule = "D-BOUND"
		var in map[*ssa.Function]bool
		note := "all functions"
		if scope != nil {
			in, note = scope(p)
		}
		total, trivial := 0, 0
		seq := map[string]int{}
		for _, f := range p.Funcs {
			if in != nil && !in[f] {
				continue
			}
			sites := boundSites(f)
			if len(sites) == 0 {
				continue
			}
			vals := collectVals(f)
			fn := core.FuncName(f)
			for _, s := range sites {
				total++
				facts := factsAt(s.at.Block())
				var length lin
				if s.fixedLen >= 0 {
					length = lin{"", s.fixedLen, true}
				} else if l, ok := madeLen(s.container, s.at); ok {
					length = l
				} else {
					length = lin{"len:" + valID(s.container), 0, true}
				}
				zero := lin{"", 0, true}
				okAll := true
				why := ""
				check := func(name string, lo lin, hiStrict bool, v lin) {
					if !proveLess(lo, v, false, facts, vals, 0) {
						okAll = false
						why += fmt.Sprintf("cannot show %s >= %s; ", name, fmtLin(lo))
					}
					if !proveLess(v, length, hiStrict, facts, vals, 0) {
						okAll = false
						rel := "<="
						if hiStrict {
							rel = "<"
						}
						why += fmt.Sprintf("cannot show %s %s length; ", name, rel)
					}
				}
				isConstIdx := func(v ssa.Value) bool { _, ok := v.(*ssa.Const); return ok }
				if s.idx != nil {
					if isConstIdx(s.idx) && s.fixedLen >= 0 {
						trivial++
						continue // compiler-checked
					}
					check("index", zero, true, norm(s.idx, 0))
					// an index that is a parameter of an unexported helper, into a fixed-length array: in range when
					// every call site passes a value in range (the guard of an extracted helper stays at the call site)
					if !okAll && s.fixedLen >= 0 {
						if prm, isP := s.idx.(*ssa.Parameter); isP {
							if args, sites := callArgs(prm); args != nil {
								all := true
								for n, a := range args {
									if k, isK := core.ConstInt(a); isK {
										if k < 0 || k >= s.fixedLen {
											all = false
										}
										continue
									}
									cb := sites[n].Block()
									cf := factsAt(cb)
									cv := collectVals(cb.Parent())
									v := norm(a, 0)
									if !proveLess(zero, v, false, cf, cv, 0) || !proveLess(v, lin{"", s.fixedLen, true}, true, cf, cv, 0) {
										all = false
									}
								}
								if all {
									okAll, why = true, ""
								}
							}
						}
					}
				} else {
					lo := zero
					if s.lo != nil {
						lo = norm(s.lo, 0)
						check("low bound", zero, false, lo)
					}
					if s.hi != nil {
						check("high bound", lo, false, norm(s.hi, 0))
					} else if s.lo != nil {
						// low <= len already checked by check("low bound") upper part
					}
				}
				base := fn + ":" + s.what + " of " + describe(s.container)
				seq[base]++
				key := base
				if seq[base] > 1 {
					key = fmt.Sprintf("%s#%d", base, seq[base])
				}
				if okAll {
					r.OK(rule, key, p.Pos(posOf(s.at, f)), "0 <= operand (<|<=) length proven from dominating conditions / monotone loop variables")
				} else {
					r.Bad(rule, key, p.Pos(posOf(s.at, f)), "index out of range not excluded: "+why)
				}
			}
		}
		r.Count("bound_sites", total)
		r.Count("bound_sites_nonconstant", total-trivial)
		r.Note("D-BOUND: %d index/slice sites (%s), %d with non-constant operands", total, note, total-trivial)
	}
}

// madeLen: the container was loaded from an address whose dominating store holds make([]T, n): its length is n.
func madeLen(container ssa.Value, at ssa.Instruction) (lin, bool) {
	if mk, isMk := container.(*ssa.MakeSlice); isMk {
		l := norm(mk.Len, 0)
		return l, l.ok
	}
	ld, ok := container.(*ssa.UnOp)
	if !ok || ld.Op != token.MUL {
		return lin{}, false
	}
	ap, ok := core.Path(ld.X)
	if !ok {
		return lin{}, false
	}
	var res lin
	found := false
	core.EachInstr(at.Parent(), func(i ssa.Instruction) {
		st, ok := i.(*ssa.Store)
		if !ok || !core.InstrDominates(st, at) {
			return
		}
		if sp, ok := core.Path(st.Addr); !ok || sp != ap {
			return
		}
		if mk, ok := st.Val.(*ssa.MakeSlice); ok {
			res, found = norm(mk.Len, 0), true
		} else {
			found = false
		}
	})
	return res, found && res.ok
}

func fmtLin(l lin) string {
	if l.base == "" {
		return fmt.Sprint(l.c)
	}
	if l.c == 0 {
		return l.base
	}
	return fmt.Sprintf("%s%+d", l.base, l.c)
}
