package rules

import (
	"fmt"
	"go/token"
	"go/types"
	"os"
	"sort"
	"strings"

	"golang.org/x/tools/go/ssa"

	"verifchk/core"
)

// documented rule functions of spec validation (doc.go / spec.go): a floor, not a whitelist —
// every *Result-returning call in Validate is subject to the same obligations.
var documentedRules = []string{
	"(*SchemaValidator).Validate", // the schema pass
	"(*SpecValidator).validateReferencesValid",
	"(*SpecValidator).validateDuplicateOperationIDs",
	"(*SpecValidator).validateDuplicatePropertyNames",
	"(*SpecValidator).validateParameters",
	"(*SpecValidator).validateItems",
	"(*SpecValidator).validateRequiredDefinitions",
	"(*defaultValidator).Validate",
	"(*exampleValidator).Validate",
	"(*SpecValidator).validateNonEmptyPathParamNames",
	"(*SpecValidator).validateReferenced",
}

func isResultPtr(t types.Type) bool {
	n := core.NamedOf(t)
	_, isPtr := t.(*types.Pointer)
	return isPtr && n != nil && core.KnownTypeName(n) == "Result" && n.Obj().Pkg() != nil && n.Obj().Pkg().Name() == "validate"
}

// cellOf: v is a load of a local variable cell; returns the cell.
func cellOf(v ssa.Value) *ssa.Alloc {
	if ld, ok := v.(*ssa.UnOp); ok && ld.Op == token.MUL {
		if a, ok := ld.X.(*ssa.Alloc); ok {
			return a
		}
	}
	return nil
}

// mergedInto: the call result c is an operand of a call (*Result).<method>(recv, ...c...) ; returns method, receiver.
func mergedInto(c ssa.Value) (string, ssa.Value, ssa.Instruction) {
	for _, ref := range core.Refs(c) {
		st, ok := ref.(*ssa.Store)
		if !ok || st.Val != c {
			// direct (non-variadic) operand
			if call, ok := ref.(*ssa.Call); ok {
				if g := core.StaticCallee(call); g != nil && g.Signature.Recv() != nil && isResultPtr(g.Signature.Recv().Type()) && len(call.Call.Args) > 1 {
					for _, a := range call.Call.Args[1:] {
						if a == c {
							return g.Name(), call.Call.Args[0], call
						}
					}
				}
			}
			continue
		}
		ia, ok := st.Addr.(*ssa.IndexAddr)
		if !ok {
			continue
		}
		al, ok := ia.X.(*ssa.Alloc)
		if !ok {
			continue
		}
		for _, r2 := range core.Refs(al) {
			sl, ok := r2.(*ssa.Slice)
			if !ok {
				continue
			}
			for _, r3 := range core.Refs(sl) {
				if call, ok := r3.(*ssa.Call); ok {
					if g := core.StaticCallee(call); g != nil && g.Signature.Recv() != nil && isResultPtr(g.Signature.Recv().Type()) {
						return g.Name(), call.Call.Args[0], call
					}
				}
			}
		}
	}
	return "", nil, nil
}

func condIsOptFalse(c core.Cond, field string) bool {
	p, ok := core.StablePath(c.Value)
	return ok && strings.HasSuffix(p, ".Options."+field) && !c.Sense
}

// RuleSeq — every documented rule runs and is merged; early returns only under !ContinueOnErrors && HasErrors.
func RuleSeq(p *core.Prog, r *core.Report) {
	const rule = "RULE-SEQ"
	f := p.Func("(*SpecValidator).Validate")
	if f == nil {
		r.Unk(rule, "anchor", "-", "(*SpecValidator).Validate not found")
		return
	}
	// the two result variables
	var errsCell, warnCell *ssa.Alloc
	core.EachInstr(f, func(i ssa.Instruction) {
		if a, ok := i.(*ssa.Alloc); ok && a.Heap {
			switch a.Comment {
			case "errs":
				errsCell = a
			case "warnings":
				warnCell = a
			}
		}
	})
	if errsCell == nil || warnCell == nil {
		// fall back: the two cells holding the new(Result) values
		core.EachInstr(f, func(i ssa.Instruction) {
			if st, ok := i.(*ssa.Store); ok {
				if a, ok := st.Addr.(*ssa.Alloc); ok && isResultPtr(st.Val.Type()) {
					if _, isNew := st.Val.(*ssa.Alloc); isNew {
						if errsCell == nil {
							errsCell = a
						} else if warnCell == nil && a != errsCell {
							warnCell = a
						}
					}
				}
			}
		})
	}
	if errsCell == nil || warnCell == nil {
		r.Unk(rule, "result-variables", p.Pos(f.Pos()), "cannot identify the error and warning accumulators")
		return
	}
	// rule calls
	type rc struct {
		call *ssa.Call
		name string
	}
	var calls []rc
	core.EachInstr(f, func(i ssa.Instruction) {
		c, ok := i.(*ssa.Call)
		if !ok {
			return
		}
		g := core.StaticCallee(c)
		if g == nil || !p.InSubject(g) || g.Signature.Results().Len() != 1 || !isResultPtr(g.Signature.Results().At(0).Type()) {
			return
		}
		if g.Signature.Recv() != nil && isResultPtr(g.Signature.Recv().Type()) {
			return // Merge & co
		}
		calls = append(calls, rc{c, core.FuncName(g)})
	})
	found := map[string]bool{}
	var last *ssa.Call
	for _, c := range calls {
		found[c.name] = true
		m, recv, at := mergedInto(c.call)
		key := c.name
		switch {
		case m == "":
			r.Bad(rule, key+":merged", p.Pos(c.call.Pos()), "the result of this rule is not merged into the error accumulator: its errors are dropped")
		case m != "Merge":
			r.Bad(rule, key+":merged", p.Pos(c.call.Pos()), "the result of this rule is combined with "+m+" instead of Merge: errors change category")
		case cellOf(recv) != errsCell:
			r.Bad(rule, key+":merged", p.Pos(c.call.Pos()), "the result of this rule is merged into something other than the error accumulator")
		default:
			r.OK(rule, key+":merged", p.Pos(at.Pos()), "errs.Merge(<rule>())")
		}
		if last == nil || core.InstrDominates(last, c.call) {
			last = c.call
		}
	}
	for _, d := range documentedRules {
		if found[d] {
			r.OK(rule, d+":called", p.Pos(f.Pos()), "documented rule is invoked by Validate")
		} else {
			r.Bad(rule, d+":called", p.Pos(f.Pos()), "documented rule is no longer invoked by Validate")
		}
	}
	r.Count("spec_rule_calls", len(calls))
	r.Floor("spec_rule_calls", 11)

	// returns
	var final *ssa.Return
	nEarly := 0
	nRetPairs, badPairs := 0, 0
	for _, b := range f.Blocks {
		ret, ok := b.Instrs[len(b.Instrs)-1].(*ssa.Return)
		if !ok || b == f.Recover {
			continue
		}
		conds := core.CondsAt(b)
		optFalse, hasErr, invalidDoc := false, false, false
		for _, c := range conds {
			if condIsOptFalse(c, "ContinueOnErrors") {
				optFalse = true
			}
			if call, ok := c.Value.(*ssa.Call); ok && c.Sense {
				if g := core.StaticCallee(call); g != nil && core.FuncName(g) == "(*Result).HasErrors" && cellOf(call.Call.Args[0]) == errsCell {
					hasErr = true
				}
			}
			if bo, ok := c.Value.(*ssa.BinOp); ok && bo.Op == token.EQL && c.Sense && core.IsNilConst(bo.Y) {
				if _, isPhi := bo.X.(*ssa.Phi); isPhi && strings.Contains(bo.X.Type().String(), "loads.Document") {
					invalidDoc = true
				}
			}
		}
		// what is returned: the two accumulators, each in its own place (the deferred bookkeeping works on the
		// cells; returning the error accumulator twice hands the caller "warnings" that carry the errors)
		if len(ret.Results) == 2 {
			c0, c1 := cellOf(unspill(ret, 0)), cellOf(unspill(ret, 1))
			if c0 != nil && c1 != nil {
				nRetPairs++
				if c0 != errsCell || c1 != warnCell {
					r.Bad(rule, "return:accumulators", p.Pos(posOf(ret, f)), "a return does not hand back (errors, warnings) in that order from the two accumulators: the separately returned warnings are not the warnings of the main result")
					badPairs++
				}
			}
		}
		switch {
		case invalidDoc:
			r.OK(rule, "return:not-a-document", p.Pos(posOf(ret, f)), "returns at once when the argument is not a loaded document")
		case optFalse && hasErr:
			nEarly++
			r.OK(rule, fmt.Sprintf("return:early#%d", nEarly), p.Pos(posOf(ret, f)), "early return only under !Options.ContinueOnErrors && errs.HasErrors()")
		default:
			allDom := last != nil && core.InstrDominates(last, ret)
			for _, c := range calls {
				if !core.InstrDominates(c.call, ret) {
					allDom = false
				}
			}
			if allDom && final == nil {
				final = ret
				r.OK(rule, "return:final", p.Pos(posOf(ret, f)), fmt.Sprintf("the unconditional return is dominated by all %d rule calls: without errors (or with continue-on-errors) every rule runs", len(calls)))
			} else {
				r.Bad(rule, "return:unguarded", p.Pos(posOf(ret, f)), "a return that is neither guarded by !ContinueOnErrors && errs.HasErrors() nor placed after all rules: some rules are skipped although no error was found (or continue-on-errors was requested)")
			}
		}
	}
	if final == nil {
		r.Bad(rule, "return:final", p.Pos(f.Pos()), "no return is dominated by all rule calls")
	}
	if badPairs == 0 {
		r.OK(rule, "return:accumulators", p.Pos(f.Pos()), fmt.Sprintf("each of the %d returns that hand back two results returns the error accumulator first and the warning accumulator second", nRetPairs))
	}
	r.Count("spec_early_returns", nEarly)
	r.Floor("spec_early_returns", 3)

	// deferred bookkeeping registered before the first merge
	var dfr *ssa.Defer
	core.EachInstr(f, func(i ssa.Instruction) {
		if d, ok := i.(*ssa.Defer); ok {
			dfr = d
		}
	})
	if dfr == nil {
		r.Bad(rule, "warnings-bookkeeping", p.Pos(f.Pos()), "the deferred step that moves warnings into both results is gone")
	} else {
		clo, _ := dfr.Call.Value.(*ssa.MakeClosure)
		okA, okB := false, false
		if clo != nil {
			g := clo.Fn.(*ssa.Function)
			bind := func(v ssa.Value) *ssa.Alloc {
				if ld, ok := v.(*ssa.UnOp); ok {
					if fv, ok := ld.X.(*ssa.FreeVar); ok {
						for k, x := range g.FreeVars {
							if x == fv {
								a, _ := clo.Bindings[k].(*ssa.Alloc)
								return a
							}
						}
					}
				}
				return nil
			}
			core.EachInstr(g, func(i ssa.Instruction) {
				c, ok := i.(*ssa.Call)
				if !ok {
					return
				}
				h := core.StaticCallee(c)
				if h == nil {
					return
				}
				switch core.FuncName(h) {
				case "(*Result).MergeAsWarnings":
					ops := varargElems(c.Call.Args[1])
					if bind(c.Call.Args[0]) == errsCell && len(ops) == 1 && bind(ops[0]) == warnCell {
						okA = true
					}
				case "(*Result).AddErrors":
					if bind(c.Call.Args[0]) == warnCell {
						if ld, ok := c.Call.Args[1].(*ssa.UnOp); ok {
							if fa, ok := ld.X.(*ssa.FieldAddr); ok {
								_, fn, _ := core.FieldOf(fa)
								if fn == "Warnings" && bind(fa.X) == errsCell {
									okB = true
								}
							}
						}
					}
				}
			})
		}
		first := calls[0].call
		for _, c := range calls {
			if core.InstrDominates(c.call, first) {
				first = c.call
			}
		}
		switch {
		case !okA || !okB:
			r.Bad(rule, "warnings-bookkeeping", p.Pos(dfr.Pos()), "the deferred step no longer performs errs.MergeAsWarnings(warnings) and warnings.AddErrors(errs.Warnings...): the separately returned warnings differ from those attached to the main result")
		case !core.InstrDominates(dfr, first):
			r.Bad(rule, "warnings-bookkeeping", p.Pos(dfr.Pos()), "the warnings bookkeeping is registered after the first rule ran: an early return skips it")
		default:
			r.OK(rule, "warnings-bookkeeping", p.Pos(dfr.Pos()), "deferred errs.MergeAsWarnings(warnings); warnings.AddErrors(errs.Warnings...) registered before the first rule")
		}
	}

	// per-validator options: value type, and the global default is read only at construction
	if sv := p.Main.Pkg.Scope().Lookup("SpecValidator"); sv != nil {
		st := sv.Type().Underlying().(*types.Struct)
		for i := 0; i < st.NumFields(); i++ {
			if core.FieldName(st, i) == "Options" {
				if _, isPtr := st.Field(i).Type().(*types.Pointer); isPtr {
					r.Bad(rule, "options-per-validator", p.Pos(sv.Pos()), "SpecValidator.Options is a pointer: validators share (and race on) one option set")
				} else {
					r.OK(rule, "options-per-validator", p.Pos(sv.Pos()), "SpecValidator.Options has a value type: copied at construction")
				}
			}
		}
	}
	for _, g := range p.Funcs {
		core.EachInstr(g, func(i ssa.Instruction) {
			for _, op := range i.Operands(nil) {
				if op == nil || *op == nil {
					continue
				}
				gl, ok := (*op).(*ssa.Global)
				if !ok || gl.Name() != "defaultOpts" {
					continue
				}
				fn := core.FuncName(core.EnclosingTop(g))
				switch fn {
				case "NewSpecValidator", "SetContinueOnErrors", "init":
					r.OK(rule, "default-options-use:"+fn, p.Pos(i.Pos()), "global default options used only to initialise a validator / by the setter")
				default:
					r.Bad(rule, "default-options-use:"+fn, p.Pos(i.Pos()), "the process-wide default options are consulted during validation instead of the validator's own copy: SetContinueOnErrors on one validator (or on the default, later) changes what another validation reports")
				}
			}
		})
	}
}

// NoDrop — every *Result produced in the spec-validation files is merged, returned, or ditched only when it carries no message.
func NoDrop(p *core.Prog, r *core.Report) {
	const rule = "NO-DROP"
	pi := discoverPools(p)
	ra := newResAnalysis(p)
	scope := specScope(p)
	if os.Getenv("VCHK_SCOPE") != "" {
		for _, f := range p.Funcs {
			inFile := map[string]bool{"spec.go": true, "default_validator.go": true, "example_validator.go": true, "helpers.go": true}[p.File(f.Pos())]
			if inFile != scope[f] {
				fmt.Println("SCOPE-DIFF", core.FuncName(f), "file:", inFile, "scope:", scope[f])
			}
		}
	}
	n := 0
	seq := map[string]int{}
	for _, f := range p.Funcs {
		if !scope[f] {
			continue
		}
		fn := core.FuncName(f)
		core.EachInstr(f, func(i ssa.Instruction) {
			c, ok := i.(*ssa.Call)
			if !ok {
				return
			}
			var vals []ssa.Value
			res := c.Call.Signature().Results()
			if res.Len() == 1 && isResultPtr(res.At(0).Type()) {
				vals = append(vals, c)
			} else {
				for _, ref := range core.Refs(c) {
					if e, ok := ref.(*ssa.Extract); ok && isResultPtr(e.Type()) {
						vals = append(vals, e)
					}
				}
				if res.Len() > 1 {
					for k := 0; k < res.Len(); k++ {
						if isResultPtr(res.At(k).Type()) {
							has := false
							for _, v := range vals {
								if e, ok := v.(*ssa.Extract); ok && e.Index == k {
									has = true
								}
							}
							if !has {
								n++
								r.Bad(rule, fn+":"+core.CalleeID(c)+":ignored", p.Pos(c.Pos()), "a *Result returned by this call is discarded")
							}
						}
					}
				}
			}
			g := core.StaticCallee(c)
			if g != nil {
				if _, isBorrow := pi.borrow[g]; isBorrow {
					return
				}
				if g.Signature.Recv() != nil && isResultPtr(g.Signature.Recv().Type()) {
					return // combinators return their receiver
				}
				if _, alias := ra.returnsParam[g][0]; alias && res.Len() == 1 {
					return // returns one of its arguments: not a new result
				}
			}
			for _, v := range vals {
				n++
				if e, ok := v.(*ssa.Extract); ok && g != nil && core.FuncName(g) == "(*SpecValidator).Validate" && e.Index == 1 {
					// reviewed: the second result only repeats the warnings attached to the first (RULE-SEQ warnings-bookkeeping)
					r.OK(rule, fn+":"+core.CalleeID(c)+":warnings-copy", p.Pos(c.Pos()), "second result of SpecValidator.Validate duplicates the warnings of the first; ignoring it loses nothing")
					continue
				}
				base := fn + ":" + core.CalleeID(c)
				seq[base]++
				key := fmt.Sprintf("%s#%d", base, seq[base])
				used := false
				var why []string
				// follow the value through phis and local cells
				seen := map[ssa.Value]bool{}
				var follow func(x ssa.Value)
				follow = func(x ssa.Value) {
					if seen[x] {
						return
					}
					seen[x] = true
					if m, _, _ := mergedInto(x); m != "" {
						used = true
						why = append(why, m)
					}
					for _, ref := range core.Refs(x) {
						switch u := ref.(type) {
						case *ssa.FieldAddr:
							// errs.Errors... handed to a constructor whose value is returned (conversion to an error)
							_, fld, _ := core.FieldOf(u)
							if fld == "Errors" {
								for _, r2 := range core.Refs(u) {
									if ld, ok := r2.(*ssa.UnOp); ok {
										for _, r3 := range core.Refs(ld) {
											if cc, ok := r3.(*ssa.Call); ok {
												for _, r4 := range core.Refs(cc) {
													switch w := r4.(type) {
													case *ssa.Return:
														used = true
														why = append(why, "converted to the returned error")
													case *ssa.MakeInterface, *ssa.ChangeInterface:
														for _, r5 := range core.Refs(w.(ssa.Value)) {
															if _, ok := r5.(*ssa.Return); ok {
																used = true
																why = append(why, "converted to the returned error")
															}
														}
													}
												}
											}
										}
									}
								}
							}
						case *ssa.Return:
							used = true
							why = append(why, "returned")
						case *ssa.Phi:
							follow(u)
						case *ssa.Store:
							if u.Val == x {
								if cell, ok := u.Addr.(*ssa.Alloc); ok {
									for _, r2 := range core.Refs(cell) {
										if ld, ok := r2.(*ssa.UnOp); ok && ld.Op == token.MUL {
											follow(ld)
										}
									}
								}
							}
						case ssa.CallInstruction:
							if rcall, arg := pi.isRedeemCall(u); rcall != nil && arg == x {
								// ditched: only where the result has no message
								okDitch := false
								for _, cd := range core.CondsAt(u.Block()) {
									if call, ok := cd.Value.(*ssa.Call); ok && !cd.Sense {
										if h := core.StaticCallee(call); h != nil && core.FuncName(h) == "(*Result).HasErrorsOrWarnings" && seen[call.Call.Args[0]] {
											okDitch = true
										}
									}
								}
								if okDitch {
									used = true
									why = append(why, "ditched when empty")
								} else {
									why = append(why, "DITCHED-WITH-MESSAGES")
									r.Bad(rule, key+":ditched", p.Pos(u.Pos()), "a rule result is returned to the pool on a path where it may still carry errors or warnings: they are lost")
								}
							}
						}
					}
				}
				follow(v)
				if used {
					sort.Strings(why)
					r.OK(rule, key, p.Pos(c.Pos()), "result is "+strings.Join(uniq(why), ", "))
				} else {
					r.Bad(rule, key, p.Pos(c.Pos()), "the *Result of this call is neither merged nor returned: its messages are dropped")
				}
			}
		})
	}
	r.Count("result_producing_calls", n)
	r.Floor("result_producing_calls", 60)
}

func uniq(s []string) []string {
	var out []string
	for i, x := range s {
		if i == 0 || x != s[i-1] {
			out = append(out, x)
		}
	}
	return out
}

// RunState — per-run state of a SpecValidator is re-established at every run: each field of the
// validator that is written by code reachable from Validate has an unconditional store in Validate
// itself that dominates every rule call (otherwise a reused validator judges a document with data
// computed from the previous one).
func RunState(p *core.Prog, r *core.Report) {
	const rule = "RUN-STATE"
	f := p.Func("(*SpecValidator).Validate")
	if f == nil {
		r.Unk(rule, "anchor", "-", "(*SpecValidator).Validate not found")
		return
	}
	cg := core.BuildCallGraph(p)
	reach, _ := cg.Reachable("(*SpecValidator).Validate")
	sv := core.NamedOf(f.Signature.Recv().Type())
	written := map[string]bool{}
	for g := range reach {
		core.EachInstr(g, func(i ssa.Instruction) {
			if st, ok := i.(*ssa.Store); ok {
				if fa, ok := st.Addr.(*ssa.FieldAddr); ok && core.NamedOf(fa.X.Type()) == sv {
					_, fn, _ := core.FieldOf(fa)
					written[fn] = true
				}
			}
		})
	}
	var first ssa.Instruction
	core.EachInstr(f, func(i ssa.Instruction) {
		c, ok := i.(*ssa.Call)
		if !ok {
			return
		}
		g := core.StaticCallee(c)
		if g == nil || !p.InSubject(g) || g.Signature.Results().Len() != 1 || !isResultPtr(g.Signature.Results().At(0).Type()) || (g.Signature.Recv() != nil && isResultPtr(g.Signature.Recv().Type())) {
			return
		}
		if first == nil || core.InstrDominates(c, first) {
			first = c
		}
	})
	var names []string
	for n := range written {
		names = append(names, n)
	}
	sort.Strings(names)
	r.Count("spec_run_state_fields", len(names))
	r.Floor("spec_run_state_fields", 3)
	for _, n := range names {
		ok := false
		core.EachInstr(f, func(i ssa.Instruction) {
			if st, isSt := i.(*ssa.Store); isSt && first != nil {
				if fa, isFA := st.Addr.(*ssa.FieldAddr); isFA && fa.X == ssa.Value(f.Params[0]) {
					_, fn, _ := core.FieldOf(fa)
					if fn == n && core.InstrDominates(st, first) {
						ok = true
					}
				}
			}
		})
		if ok {
			r.OK(rule, "SpecValidator."+n, p.Pos(f.Pos()), "assigned unconditionally at the start of every Validate run, before the first rule")
		} else {
			r.Bad(rule, "SpecValidator."+n, p.Pos(f.Pos()), "field "+n+" is written while validating but not re-initialised at the start of a run: a validator used for a second document may judge it with state computed from the first")
		}
	}
}

// MODE-USE — continue-on-errors may only decide WHEN the run stops, never what a rule reports: every read of
// Opts.ContinueOnErrors in the package must be consumed by a branch condition of (*SpecValidator).Validate
// (the early-return guards RULE-SEQ checks). A read in any other function, or a value that flows anywhere
// else (an argument, a field of another options struct handed to a dependency), makes the error set of the
// two modes diverge in more than the stopping point.
func ModeUse(p *core.Prog, r *core.Report) {
	const rule = "MODE-USE"
	n := 0
	seq := map[string]int{}
	for _, f := range p.Funcs {
		fn := core.FuncName(f)
		core.EachInstr(f, func(i ssa.Instruction) {
			var loaded ssa.Value
			switch x := i.(type) {
			case *ssa.UnOp:
				if x.Op != token.MUL {
					return
				}
				fa, ok := x.X.(*ssa.FieldAddr)
				if !ok {
					return
				}
				if _, name, _ := core.FieldOf(fa); name != "ContinueOnErrors" {
					return
				}
				loaded = x
			case *ssa.Field:
				if _, name, _ := core.FieldOf(x); name != "ContinueOnErrors" {
					return
				}
				loaded = x
			default:
				return
			}
			n++
			base := fn + ":read"
			seq[base]++
			key := base
			if seq[base] > 1 {
				key = fmt.Sprintf("%s#%d", base, seq[base])
			}
			bad := ""
			if fn != "(*SpecValidator).Validate" {
				bad = "the mode is read outside (*SpecValidator).Validate"
			}
			var follow func(v ssa.Value, d int)
			follow = func(v ssa.Value, d int) {
				if d > 4 || bad != "" {
					return
				}
				for _, ref := range core.Refs(v) {
					switch y := ref.(type) {
					case *ssa.If, *ssa.DebugRef:
					case *ssa.UnOp:
						if y.Op == token.NOT {
							follow(y, d+1)
						} else {
							bad = "used by " + y.String()
						}
					case *ssa.Phi:
						if b, ok := y.Type().Underlying().(*types.Basic); ok && b.Kind() == types.Bool {
							follow(y, d+1) // short-circuit && / ||
						} else {
							bad = "flows into " + y.String()
						}
					default:
						bad = "flows into `" + ref.String() + "`"
					}
				}
			}
			follow(loaded, 0)
			if bad != "" {
				r.Bad(rule, key, p.Pos(posOf(i, f)), "continue-on-errors must only guard the early returns of Validate, but here "+bad+": what is reported (not just when the run stops) depends on the mode, so the stop-early errors are no longer a subset of the continue-on-errors ones")
			} else {
				r.OK(rule, key, p.Pos(posOf(i, f)), "the mode is only consumed by branch conditions of Validate (early-return guards)")
			}
		})
	}
	r.Count("mode_reads", n)
	r.Floor("mode_reads", 2)
}

// WARN-NEUTRAL — warnings alone never make a document invalid: no error is added under a condition that reads
// the warnings of a sub-result which can actually carry warnings. may-warn summary: a function that calls
// AddWarnings / MergeAsWarnings, or a function returning / merging the result of such a function. A test
// HasErrorsOrWarnings() / HasWarnings() on the result of a may-warn function must not control an AddErrors or an
// error-message construction (on results that cannot carry warnings — the schema, parameter and header validators —
// HasErrorsOrWarnings() is just HasErrors()).
func WarnNeutral(p *core.Prog, r *core.Report) {
	const rule = "WARN-NEUTRAL"
	mayWarn := map[*ssa.Function]bool{}
	for _, f := range p.Funcs {
		if !p.InSubject(f) {
			continue
		}
		core.EachInstr(f, func(i ssa.Instruction) {
			if c, ok := i.(ssa.CallInstruction); ok {
				if g := core.StaticCallee(c); g != nil && (g.Name() == "AddWarnings" || g.Name() == "MergeAsWarnings") && g.Signature.Recv() != nil && isResultPtr(g.Signature.Recv().Type()) {
					mayWarn[core.EnclosingTop(f)] = true
				}
			}
		})
	}
	// the Result methods themselves are not "producers"
	for f := range mayWarn {
		if f.Signature.Recv() != nil && isResultPtr(f.Signature.Recv().Type()) {
			delete(mayWarn, f)
		}
	}
	for changed := true; changed; {
		changed = false
		for _, f := range p.Funcs {
			top := core.EnclosingTop(f)
			if mayWarn[top] || !p.InSubject(f) || (top.Signature.Recv() != nil && isResultPtr(top.Signature.Recv().Type())) {
				continue
			}
			core.EachInstr(f, func(i ssa.Instruction) {
				if c, ok := i.(ssa.CallInstruction); ok {
					if g := core.StaticCallee(c); g != nil && mayWarn[g] && g.Signature.Results().Len() > 0 && isResultPtr(g.Signature.Results().At(0).Type()) && !mayWarn[top] {
						mayWarn[top] = true
						changed = true
					}
				}
			})
		}
	}
	n := 0
	seq := map[string]int{}
	for _, f := range p.Funcs {
		if !p.InSubject(f) {
			continue
		}
		fn := core.FuncName(f)
		core.EachInstr(f, func(i ssa.Instruction) {
			c, ok := i.(ssa.CallInstruction)
			if !ok {
				return
			}
			g := core.StaticCallee(c)
			if g == nil {
				return
			}
			isErrEffect := (g.Name() == "AddErrors" && g.Signature.Recv() != nil && isResultPtr(g.Signature.Recv().Type()))
			if !isErrEffect {
				return
			}
			// the conditions the error depends on: its control conditions and, through boolean flags, the
			// conditions under which those flags are set
			var conds []core.Cond
			seenPhi := map[*ssa.Phi]bool{}
			var behind func(v ssa.Value, d int)
			behind = func(v ssa.Value, d int) {
				if d > 5 {
					return
				}
				if u, ok := v.(*ssa.UnOp); ok && u.Op == token.NOT {
					behind(u.X, d+1)
					return
				}
				ph, ok := v.(*ssa.Phi)
				if !ok || seenPhi[ph] {
					return
				}
				if b, ok := ph.Type().Underlying().(*types.Basic); !ok || b.Kind() != types.Bool {
					return
				}
				seenPhi[ph] = true
				for k, e := range ph.Edges {
					for _, c := range core.CondsAt(ph.Block().Preds[k]) {
						conds = append(conds, c)
						behind(c.Value, d+1)
					}
					behind(e, d+1)
				}
			}
			for _, cd := range core.ControlConds(i.Block()) {
				conds = append(conds, cd)
				behind(cd.Value, 0)
			}
			for _, cd := range conds {
				qc, ok := cd.Value.(*ssa.Call)
				if !ok {
					continue
				}
				q := core.StaticCallee(qc)
				if q == nil || !(q.Name() == "HasErrorsOrWarnings" || q.Name() == "HasWarnings") || len(qc.Call.Args) == 0 {
					continue
				}
				// whose warnings? the value of a call to a may-warn function
				src := qc.Call.Args[0]
				var producer *ssa.Function
				if sc, ok := src.(*ssa.Call); ok {
					producer = core.StaticCallee(sc)
				}
				if ex, ok := src.(*ssa.Extract); ok {
					if sc, ok := ex.Tuple.(*ssa.Call); ok {
						producer = core.StaticCallee(sc)
					}
				}
				n++
				base := fn + ":" + q.Name()
				seq[base]++
				key := base
				if seq[base] > 1 {
					key = fmt.Sprintf("%s#%d", base, seq[base])
				}
				if producer != nil && mayWarn[producer] {
					r.Bad(rule, key, p.Pos(i.Pos()), fmt.Sprintf("an error is added depending on %s() of the result of %s, which can carry warnings only: a warning would turn into an error (a valid document becomes invalid)", q.Name(), core.FuncName(producer)))
				} else {
					r.OK(rule, key, p.Pos(i.Pos()), "the tested result comes from a validator that never produces warnings: the test is HasErrors()")
				}
			}
		})
	}
	var mw []string
	for f := range mayWarn {
		mw = append(mw, core.FuncName(f))
	}
	sort.Strings(mw)
	r.Info["may_warn_functions"] = mw
	r.Count("warning_sensitive_error_sites", n)
	r.Floor("warning_sensitive_error_sites", 4)
}

// specScope: the functions that make up spec validation, found structurally instead of by file name: the methods
// of SpecValidator and of the types that hold a *SpecValidator (the default / example walkers), plus every package
// function or helper method they call (transitively) that is neither a method of Result nor of a pooled validator
// type (those belong to schema validation) — so moving a rule function to another file leaves it in scope.
func specScope(p *core.Prog) map[*ssa.Function]bool {
	pi := discoverPools(p)
	isSpecType := func(t types.Type) bool {
		n := core.NamedOf(t)
		if n == nil {
			return false
		}
		if core.KnownTypeName(n) == "SpecValidator" {
			return true
		}
		if st, ok := n.Underlying().(*types.Struct); ok {
			for k := 0; k < st.NumFields(); k++ {
				if fn := core.NamedOf(st.Field(k).Type()); fn != nil && core.KnownTypeName(fn) == "SpecValidator" {
					return true
				}
			}
		}
		return false
	}
	excluded := func(g *ssa.Function) bool {
		if _, isB := pi.borrow[g]; isB {
			return true // pool layer: POOL-API
		}
		if _, isR := pi.redeem[g]; isR {
			return true
		}
		usesSync := false
		core.EachInstr(g, func(i ssa.Instruction) {
			for _, op := range i.Operands(nil) {
				if op != nil && *op != nil {
					if gl, ok := (*op).(*ssa.Global); ok && isSyncType(gl.Type()) {
						usesSync = true // the regexp cache: COW
					}
				}
			}
		})
		if usesSync {
			return true
		}
		if g.Signature.Recv() == nil {
			return false
		}
		n := core.NamedOf(g.Signature.Recv().Type())
		if n == nil {
			return false
		}
		return pi.pooled[n] || isResultPtr(g.Signature.Recv().Type()) || core.KnownTypeName(n) == "SchemaValidator" || core.KnownTypeName(n) == "ParamValidator" || core.KnownTypeName(n) == "HeaderValidator"
	}
	scope := map[*ssa.Function]bool{}
	var work []*ssa.Function
	add := func(f *ssa.Function) {
		if f == nil || scope[f] || len(f.Blocks) == 0 {
			return
		}
		scope[f] = true
		work = append(work, f)
	}
	for _, f := range p.Funcs {
		if f.Parent() == nil && f.Signature.Recv() != nil && isSpecType(f.Signature.Recv().Type()) {
			add(f)
		}
		// exported entry points that build or run a spec validator
		if f.Parent() == nil && f.Signature.Recv() == nil && f.Object() != nil && f.Object().Exported() && f.Pkg == p.Main {
			uses := false
			core.EachInstr(f, func(i ssa.Instruction) {
				if c, ok := i.(ssa.CallInstruction); ok {
					if g := core.StaticCallee(c); g != nil && g.Signature.Recv() != nil && isSpecType(g.Signature.Recv().Type()) {
						uses = true
					}
				}
				if al, ok := i.(*ssa.Alloc); ok && isSpecType(al.Type()) {
					uses = true
				}
			})
			if uses {
				add(f)
			}
		}
	}
	ctors := ctorsOf(p, pi)
	for len(work) > 0 {
		f := work[len(work)-1]
		work = work[:len(work)-1]
		for _, a := range f.AnonFuncs {
			add(a)
		}
		core.EachInstr(f, func(i ssa.Instruction) {
			if c, ok := i.(ssa.CallInstruction); ok {
				if g := core.StaticCallee(c); g != nil && p.InSubject(g) && g.Pkg == p.Main && !excluded(g) && ctors[g] == nil && !strings.HasSuffix(g.Name(), "Msg") {
					if g.Object() != nil && g.Object().Exported() && g.Signature.Recv() == nil {
						return // exported helpers (values.go) are not spec-validation code
					}
					add(g)
				}
			}
		})
	}
	return scope
}

// RAW-ANALYZER — the spec validator keeps two views of the document: the analyzer of the document as written
// (field `analyzer`, references intact) and the analyzer of the expanded document (expandedAnalyzer()). Rules
// about parameters, operations, paths, security and definitions quantify over the *expanded* view — a parameter
// behind a $ref is otherwise invisible to them — while only the enumeration of references themselves needs the
// unexpanded view (after expansion there are none left). Every use of the raw field must therefore be one of:
//   - the store in Validate and the fallback inside the expanded-analyzer accessor,
//   - the receiver of a reference-enumerating method (All…References, AllRefs, …),
//   - a reviewed exception, by function, with its reason.
//
// Anything else (e.g. validateParameters ranging over s.analyzer.Operations()) skips every rule instance that
// only exists after $ref resolution.
var rawAnalyzerReviewed = map[string]string{
	"(*SpecValidator).validateItems": "items/array checks on parameters and headers as written; $ref'd parameters are checked where they are declared (shared parameters are walked by the same function)",
}

func RawAnalyzer(p *core.Prog, r *core.Report) {
	const rule = "RAW-ANALYZER"
	var sv *types.Named
	if o := p.Main.Pkg.Scope().Lookup("SpecValidator"); o != nil {
		sv, _ = o.Type().(*types.Named)
	}
	if sv == nil {
		r.Unk(rule, "type", "-", "SpecValidator not found")
		return
	}
	st := sv.Underlying().(*types.Struct)
	// the raw analyzer field: the field of analyzer type that Validate stores the fresh analysis into
	// and that is not the expanded one: resolved as the field the expanded accessor falls back to
	acc := p.Func("(*SpecValidator).expandedAnalyzer")
	if acc == nil {
		r.Unk(rule, "accessor", "-", "(*SpecValidator).expandedAnalyzer not found")
		return
	}
	fields := map[int]bool{}
	for k := 0; k < st.NumFields(); k++ {
		if n := core.NamedOf(st.Field(k).Type()); n != nil && core.KnownTypeName(n) == "Spec" && n.Obj().Pkg() != nil && strings.HasSuffix(n.Obj().Pkg().Path(), "/analysis") {
			fields[k] = true
		}
	}
	// the expanded view lives behind the expanded document (expandedAnalyzer()); the only field of analyzer
	// type on the validator itself is the raw one
	rawIdx := -1
	if len(fields) == 1 {
		for k := range fields {
			rawIdx = k
		}
	}
	if rawIdx < 0 {
		r.Unk(rule, "fields", p.Pos(acc.Pos()), "cannot tell the raw analyzer field from the expanded one")
		return
	}
	rawName := core.FieldName(st, rawIdx)
	n := 0
	for _, f := range p.Funcs {
		top := core.EnclosingTop(f)
		core.EachInstr(f, func(i ssa.Instruction) {
			fa, ok := i.(*ssa.FieldAddr)
			if !ok || fa.Field != rawIdx {
				return
			}
			if n := core.NamedOf(fa.X.Type()); n == nil || n.Obj() != sv.Obj() {
				return
			}
			for _, ref := range core.Refs(fa) {
				if s, ok := ref.(*ssa.Store); ok && s.Addr == ssa.Value(fa) {
					continue // (re)initialisation
				}
				ld, ok := ref.(*ssa.UnOp)
				if !ok {
					r.Unk(rule, core.FuncName(top)+":addr", p.Pos(fa.Pos()), "the address of the raw analyzer field escapes")
					continue
				}
				for _, use := range core.Refs(ld) {
					n++
					key := core.FuncName(top) + ":" + rawName
					pos := p.Pos(use.Pos())
					switch u := use.(type) {
					case *ssa.Call:
						g := core.StaticCallee(u)
						if g != nil && len(u.Call.Args) > 0 && u.Call.Args[0] == ssa.Value(ld) && g.Signature.Recv() != nil {
							key += "." + g.Name()
							switch {
							case strings.Contains(g.Name(), "Ref"):
								r.OK(rule, key, pos, "reference enumeration on the document as written")
							case rawAnalyzerReviewed[core.FuncName(top)] != "":
								r.OK(rule, key, pos, "reviewed: "+rawAnalyzerReviewed[core.FuncName(top)])
							default:
								r.Bad(rule, key, pos, fmt.Sprintf("%s calls %s on the analyzer of the document as written: parameters, responses and schemas that are only reachable through a $ref are invisible to this rule; use the expanded analyzer", core.FuncName(top), g.Name()))
							}
							continue
						}
						r.Unk(rule, key+":arg", pos, "the raw analyzer is passed on; its uses there are not followed")
					case *ssa.Return, *ssa.Phi, *ssa.Store:
						if top == acc {
							r.OK(rule, key+":fallback", pos, "fallback of the expanded-analyzer accessor (before expansion has run)")
						} else if noExpansionAt(ld.Block()) {
							r.OK(rule, key+":fallback", pos, "fallback taken only when there is no expanded document")
						} else {
							r.Unk(rule, key+":flow", pos, "the raw analyzer flows somewhere that is not followed")
						}
					case *ssa.BinOp, *ssa.If:
						r.OK(rule, key+":niltest", pos, "nil test")
					case *ssa.DebugRef:
						n--
					default:
						r.Unk(rule, key+":use", pos, fmt.Sprintf("unrecognised use of the raw analyzer (%T)", use))
					}
				}
			}
		})
	}
	r.Count("raw_analyzer_uses", n)
	r.Floor("raw_analyzer_uses", 4)
}

// noExpansionAt: block b only runs when the validator's expanded document is nil.
func noExpansionAt(b *ssa.BasicBlock) bool {
	for _, c := range core.CondsAt(b) {
		bo, ok := c.Value.(*ssa.BinOp)
		if !ok {
			continue
		}
		var x ssa.Value
		if core.IsNilConst(bo.Y) {
			x = bo.X
		} else if core.IsNilConst(bo.X) {
			x = bo.Y
		}
		if x == nil {
			continue
		}
		pth, ok := core.Path(x)
		if !ok || !strings.HasSuffix(pth, ".expanded") {
			continue
		}
		if (bo.Op == token.EQL && c.Sense) || (bo.Op == token.NEQ && !c.Sense) {
			return true
		}
	}
	return false
}

// EXPAND-ROOT — every resolution or expansion request made to go-openapi/spec (a callee with a parameter named
// `root`) is given the document it must resolve against: the validator's own document (….Spec()) or the root the
// enclosing function itself received. A nil or foreign root makes every local reference (#/definitions/X)
// resolve against the fragment alone: the request fails, and whatever was going to be checked after it (the
// default or example of a definition whose schema has a resolvable $ref) is silently skipped.
func ExpandRoot(p *core.Prog, r *core.Report) {
	const rule = "EXPAND-ROOT"
	n := 0
	seq := map[string]int{}
	for _, f := range p.Funcs {
		core.EachInstr(f, func(i ssa.Instruction) {
			c, ok := i.(ssa.CallInstruction)
			if !ok {
				return
			}
			g := core.StaticCallee(c)
			if g == nil || g.Pkg == nil {
				return
			}
			idx := -1
			if _, rootIdx, isW := expandWrapper(g); isW {
				idx = rootIdx // a thin wrapper of the package around spec.ExpandSchema: its root argument counts
			} else if !strings.HasSuffix(g.Pkg.Pkg.Path(), "go-openapi/spec") {
				return
			}
			sig := g.Signature
			for k := 0; idx < 0 && k < sig.Params().Len(); k++ {
				if sig.Params().At(k).Name() == "root" {
					idx = k
				}
			}
			if idx < 0 || idx >= len(c.Common().Args) {
				return
			}
			n++
			base := core.FuncName(core.EnclosingTop(f)) + ":" + g.Name()
			seq[base]++
			key := base
			if seq[base] > 1 {
				key = fmt.Sprintf("%s#%d", base, seq[base])
			}
			arg := c.Common().Args[idx]
			for {
				if mi, ok := arg.(*ssa.MakeInterface); ok {
					arg = mi.X
					continue
				}
				if ct, ok := arg.(*ssa.ChangeInterface); ok {
					arg = ct.X
					continue
				}
				break
			}
			pos := p.Pos(c.Pos())
			switch a := arg.(type) {
			case *ssa.Const:
				r.Bad(rule, key, pos, fmt.Sprintf("%s is asked to resolve without a root document (root = %s): local references resolve against the fragment alone and fail, so what depends on the answer is skipped or misreported", g.Name(), a.Name()))
			case *ssa.Parameter:
				r.OK(rule, key, pos, "resolves against the root the enclosing function was given ("+a.Name()+")")
			case *ssa.Phi:
				// `if root == nil { root = schema }`: every alternative is something the function received
				all := true
				for _, e := range a.Edges {
					for {
						if mi, ok := e.(*ssa.MakeInterface); ok {
							e = mi.X
							continue
						}
						break
					}
					if al, isAl := e.(*ssa.Alloc); isAl {
						// a private copy of a schema the function received: `root := *schema; rootSchema = &root`
						copied := false
						for _, ref := range core.Refs(al) {
							if st, isSt := ref.(*ssa.Store); isSt && st.Addr == ssa.Value(al) {
								if ld, isLd := st.Val.(*ssa.UnOp); isLd && ld.Op == token.MUL {
									if _, isP := ld.X.(*ssa.Parameter); isP {
										copied = true
									}
								}
							}
						}
						if copied {
							continue
						}
					}
					if _, isP := e.(*ssa.Parameter); !isP {
						all = false
					}
				}
				// the root must not be the very object being expanded: expansion overwrites it in place
				aliased := false
				if len(c.Common().Args) > 0 {
					for _, e := range a.Edges {
						for {
							if mi, ok := e.(*ssa.MakeInterface); ok {
								e = mi.X
								continue
							}
							break
						}
						if idx != 0 && e == c.Common().Args[0] {
							aliased = true
						}
					}
				}
				if aliased {
					r.Bad(rule, key+":aliases-target", pos, g.Name()+" may be given, as the root to resolve against, the very schema it expands in place: a root-level $ref is replaced by its target and the definitions of the original are gone when a reference inside the expanded schema (a recursive one) is resolved later — {\"$ref\":\"#/definitions/node\",\"definitions\":{\"node\":{\"properties\":{\"next\":{\"$ref\":\"#/definitions/node\"}}}}} panics on {\"next\":{}} although every reference resolves")
				} else {
					r.OK(rule, key+":aliases-target", pos, "the root is not the object being expanded")
				}
				if all {
					r.OK(rule, key, pos, "resolves against the root the enclosing function was given, or against (a copy of) the schema itself when none was given")
				} else {
					r.Unk(rule, key, pos, "the root argument is a join of values that are not all received by the function")
				}
			case *ssa.Call:
				h := core.StaticCallee(a)
				if h != nil && h.Name() == "Spec" && h.Signature.Recv() != nil && strings.HasSuffix(h.Signature.Recv().Type().String(), "loads.Document") {
					if pth, ok := core.StablePath(a.Call.Args[0]); ok && strings.HasSuffix(pth, ".spec") {
						r.OK(rule, key, pos, "resolves against the validator's own document ("+pth+".Spec())")
						return
					}
				}
				// a helper of the package that selects the root: each of its results is one of its own parameters or
				// a private copy of what one of them points to (`root := *schema; return &root`), and at this call
				// those parameters receive what the enclosing function itself was given
				if h != nil && p.InSubject(h) && len(h.Blocks) > 0 && len(h.Params) == len(a.Call.Args) {
					peel := func(e ssa.Value) ssa.Value {
						for {
							if mi, ok := e.(*ssa.MakeInterface); ok {
								e = mi.X
								continue
							}
							if ci, ok := e.(*ssa.ChangeInterface); ok {
								e = ci.X
								continue
							}
							return e
						}
					}
					all, aliased, nRet := true, false, 0
					var results []ssa.Value
					for _, hb := range h.Blocks {
						if ret, isRet := hb.Instrs[len(hb.Instrs)-1].(*ssa.Return); isRet && len(ret.Results) == 1 {
							nRet++
							rv := peel(ret.Results[0])
							if ph, isPhi := rv.(*ssa.Phi); isPhi {
								for _, e := range ph.Edges {
									results = append(results, peel(e))
								}
							} else {
								results = append(results, rv)
							}
						}
					}
					for _, rv := range results {
						switch e := rv.(type) {
						case *ssa.Parameter:
							for k, q := range h.Params {
								if q != e {
									continue
								}
								at := peel(a.Call.Args[k])
								if _, isP := at.(*ssa.Parameter); !isP {
									all = false
								}
								if idx != 0 && len(c.Common().Args) > 0 && at == peel(c.Common().Args[0]) {
									aliased = true
								}
							}
						case *ssa.Alloc:
							copied := false
							for _, ref := range core.Refs(e) {
								if st, isSt := ref.(*ssa.Store); isSt && st.Addr == ssa.Value(e) {
									if ld, isLd := st.Val.(*ssa.UnOp); isLd && ld.Op == token.MUL {
										if _, isP := ld.X.(*ssa.Parameter); isP {
											copied = true
										}
									}
								}
							}
							if !copied {
								all = false
							}
						default:
							all = false
						}
					}
					if nRet > 0 && all {
						if aliased {
							r.Bad(rule, key+":aliases-target", pos, g.Name()+" may be given, as the root to resolve against, the very schema it expands in place (through "+h.Name()+"): a root-level $ref is replaced by its target and the definitions of the original are gone when a reference inside the expanded schema is resolved later")
						} else {
							r.OK(rule, key+":aliases-target", pos, "the root is not the object being expanded")
						}
						r.OK(rule, key, pos, "resolves against the root the enclosing function was given, or against a copy of the schema itself when none was given (selected by "+h.Name()+")")
						return
					}
				}
				r.Unk(rule, key, pos, "the root comes from a call that is not the validator's document accessor")
			default:
				if pth, ok := core.StablePath(arg); ok && strings.HasSuffix(pth, ".Root") {
					// the root a validator was built with (a field fed from the constructor's root parameter)
					r.OK(rule, key, pos, "resolves against the root the validator was built with ("+pth+")")
					return
				}
				if pth, ok := core.StablePath(arg); ok {
					r.Unk(rule, key, pos, "the root is "+pth+": not recognised as the validator's document")
				} else {
					r.Unk(rule, key, pos, "the root argument is not recognised")
				}
			}
		})
	}
	r.Count("root_resolution_calls", n)
	r.Floor("root_resolution_calls", 5)
}

// CLONE-FAITHFUL — spec validation works on private copies of schemas (the swagger `parameter` definition, every
// definition walked for defaults and examples, the resolvability probe). A copy made with encoding/gob is not the
// schema: gob flattens pointers and omits zero values, so a *float64/*int64 bound that points to 0
// ("minimum": 0, "maxLength": 0, "maxItems": 0) and a pointer to an all-zero struct ("additionalProperties":
// false) come back nil, and the copy accepts values the schema as written rejects. Every value handed to a gob
// encoder in the subject packages must therefore have a type without such presence pointers.
func CloneFaithful(p *core.Prog, r *core.Report) {
	const rule = "CLONE-FAITHFUL"
	nClone := 0
	for _, f := range p.Funcs {
		core.EachInstr(f, func(i ssa.Instruction) {
			c, ok := i.(ssa.CallInstruction)
			if !ok {
				return
			}
			g := core.StaticCallee(c)
			if g == nil {
				return
			}
			if core.QualName(g) != "(*gob.Encoder).Encode" || len(c.Common().Args) < 2 {
				return
			}
			nClone++
			arg := c.Common().Args[1]
			if mi, ok := arg.(*ssa.MakeInterface); ok {
				arg = mi.X
			}
			key := core.FuncName(core.EnclosingTop(f)) + ":gob"
			if where := presencePointer(arg.Type(), map[types.Type]bool{}, 0, ""); where != "" {
				r.Bad(rule, key, p.Pos(c.Pos()), fmt.Sprintf("a value of type %s is copied through encoding/gob, which drops pointers to zero values: %s comes back nil when it points to 0/false — a copy of a schema with \"minimum\": 0, \"maxLength\": 0 or \"additionalProperties\": false no longer enforces that keyword", arg.Type().String(), where))
			} else {
				r.OK(rule, key, p.Pos(c.Pos()), "the encoded type has no pointer whose zero pointee is meaningful")
			}
		})
	}
	// the copy functions themselves: a function from schema to schema used by the walkers must exist and be
	// analysed (a copy that is no copy at all is INPUT-RO's and SHARED-REACH's business)
	clone := p.Func("deepCloneSchema")
	if clone == nil {
		r.Unk(rule, "clone", "-", "deepCloneSchema not found: how spec validation copies schemas is not known")
		return
	}
	// the trial expansion of a resolvability predicate works on a deep copy: spec.ExpandSchema rewrites its argument
	// in place, maps and sub-schemas included; on a shallow copy (`probe := *schema`) it rewrites what the copy
	// shares with the schema the walker is about to descend into — a property {"$ref": …, "default": "bad"} is
	// replaced by the target of the reference and loses its sibling default before anybody judged it
	for _, f := range p.Funcs {
		if f.Parent() != nil || !resolvabilityPredicate(f) {
			continue
		}
		core.EachInstr(f, func(i ssa.Instruction) {
			c, ok := i.(*ssa.Call)
			if !ok {
				return
			}
			g := core.StaticCallee(c)
			if g == nil {
				return
			}
			if _, _, isW := expandWrapper(g); core.QualName(g) != "spec.ExpandSchema" && !isW {
				return
			}
			key := core.FuncName(f) + ":probe"
			al, isAl := c.Call.Args[0].(*ssa.Alloc)
			deep := false
			if isAl {
				for _, ref := range core.Refs(al) {
					st, isSt := ref.(*ssa.Store)
					if !isSt || st.Addr != ssa.Value(al) {
						continue
					}
					deep = false
					if ex, isEx := st.Val.(*ssa.Extract); isEx {
						if cc, isC := ex.Tuple.(*ssa.Call); isC {
							if h := core.StaticCallee(cc); h != nil && h == clone {
								deep = true
							}
						}
					}
				}
			}
			if deep {
				r.OK(rule, key, p.Pos(c.Pos()), "the trial expansion runs on a deep copy of the schema")
			} else {
				r.Bad(rule, key, p.Pos(c.Pos()), "the trial expansion of "+core.FuncName(f)+" does not run on a deep copy of the schema: spec.ExpandSchema works in place, so the maps and sub-schemas a shallow copy shares with the walked schema are rewritten — a property {\"$ref\": …, \"default\": …} loses its sibling default or example before the walker reaches it, and an invalid one is silently accepted")
			}
		})
	}
	usesJSON := false
	core.EachInstr(clone, func(i ssa.Instruction) {
		if c, ok := i.(ssa.CallInstruction); ok {
			if g := core.StaticCallee(c); g != nil && (core.QualName(g) == "json.Marshal" || core.QualName(g) == "json.Unmarshal") {
				usesJSON = true
			}
		}
	})
	if usesJSON || nClone == 0 {
		r.OK(rule, "clone:encoding", p.Pos(clone.Pos()), "schemas are copied with an encoding that keeps pointers to zero values (the schema's own JSON form)")
	}
	r.Count("gob_encodes", nClone)
}

// presencePointer finds a field path to a pointer whose pointee may be meaningfully zero (basic type or struct).
func presencePointer(t types.Type, seen map[types.Type]bool, d int, path string) string {
	if d > 6 || seen[t] {
		return ""
	}
	seen[t] = true
	// a type with its own GobEncode decides its wire form itself
	for _, mt := range []types.Type{t, types.NewPointer(t)} {
		ms := types.NewMethodSet(mt)
		for k := 0; k < ms.Len(); k++ {
			if ms.At(k).Obj().Name() == "GobEncode" {
				return ""
			}
		}
	}
	switch u := t.Underlying().(type) {
	case *types.Pointer:
		switch e := u.Elem().Underlying().(type) {
		case *types.Basic:
			if path != "" {
				return path + " (" + u.String() + ")"
			}
		case *types.Struct:
			if path != "" {
				// a pointer to a struct of scalars only: an all-zero value is dropped
				allScalar := e.NumFields() > 0
				for k := 0; k < e.NumFields(); k++ {
					switch e.Field(k).Type().Underlying().(type) {
					case *types.Basic, *types.Pointer:
					default:
						allScalar = false
					}
				}
				if allScalar {
					return path + " (" + u.String() + ")"
				}
			}
			return presencePointer(u.Elem(), seen, d+1, path)
		}
		return presencePointer(u.Elem(), seen, d+1, path)
	case *types.Struct:
		for k := 0; k < u.NumFields(); k++ {
			if !u.Field(k).Exported() {
				continue // gob ignores unexported fields altogether
			}
			fp := core.FieldName(u, k)
			if path != "" {
				fp = path + "." + fp
			}
			if w := presencePointer(u.Field(k).Type(), seen, d+1, fp); w != "" {
				return w
			}
		}
	case *types.Slice:
		return presencePointer(u.Elem(), seen, d+1, path+"[]")
	case *types.Map:
		return presencePointer(u.Elem(), seen, d+1, path+"[]")
	}
	return ""
}

// VALUE-OPTIONS — a default or an example is an instance value judged by its own schema. The swagger-only rules
// about the *shape of a schema* (an object with `items` must say type: array; type: array requires `items`) are
// switches of the schema-validator options read by the object validator's pre-check; they are meant for the
// document itself. The walkers that judge defaults and examples must therefore (i) build every validator with
// their own options field and (ii) that field must be given an options value in which each of those switches
// is stored false. Otherwise a default such as {"x": {"items": 1}} that its schema accepts is reported.
func ValueOptions(p *core.Prog, r *core.Report) {
	const rule = "VALUE-OPTIONS"
	var optsT *types.Named
	if o := p.Main.Pkg.Scope().Lookup("SchemaValidatorOptions"); o != nil {
		optsT, _ = o.Type().(*types.Named)
	}
	if optsT == nil {
		r.Unk(rule, "options", "-", "SchemaValidatorOptions not found")
		return
	}
	ost := optsT.Underlying().(*types.Struct)
	// the schema-shape switches: boolean option fields on which, in a method of the object validator, a branch
	// decides whether something that adds errors is called (wherever that branch lives: a pre-check helper or
	// Validate itself). Recycling switches guard releases, the schemata switch guards bookkeeping: not errors.
	cg := core.BuildCallGraph(p)
	addsErrors := map[*ssa.Function]bool{}
	for _, f := range p.Funcs {
		core.EachInstr(f, func(i ssa.Instruction) {
			if c, ok := i.(ssa.CallInstruction); ok {
				if g := core.StaticCallee(c); g != nil && g.Name() == "AddErrors" {
					addsErrors[f] = true
				}
			}
		})
	}
	for changed := true; changed; {
		changed = false
		for _, f := range p.Funcs {
			if addsErrors[f] {
				continue
			}
			for _, g := range cg.Out[f] {
				if addsErrors[g] {
					addsErrors[f] = true
					changed = true
					break
				}
			}
		}
	}
	switches := map[int]bool{}
	var pre *ssa.Function
	for _, f := range p.Funcs {
		top := core.EnclosingTop(f)
		if top.Signature.Recv() == nil {
			continue
		}
		if n := core.NamedOf(top.Signature.Recv().Type()); n == nil || core.KnownTypeName(n) != "objectValidator" {
			continue
		}
		for _, b := range f.Blocks {
			calls := false
			for _, ins := range b.Instrs {
				if c, ok := ins.(ssa.CallInstruction); ok {
					if g := core.StaticCallee(c); g != nil && p.InSubject(g) && addsErrors[g] && g.Name() != "Validate" {
						// a call that only reports (not the recursion into sub-validators)
						if g.Signature.Results().Len() == 0 {
							calls = true
						}
					}
				}
			}
			if !calls {
				continue
			}
			for _, cd := range core.CondsAt(b) {
				ld, ok := cd.Value.(*ssa.UnOp)
				if !ok || !cd.Sense {
					continue
				}
				fa, ok := ld.X.(*ssa.FieldAddr)
				if !ok {
					continue
				}
				if n := core.NamedOf(fa.X.Type()); n == nil || n.Obj() != optsT.Obj() {
					continue
				}
				if bt, ok := ost.Field(fa.Field).Type().Underlying().(*types.Basic); ok && bt.Kind() == types.Bool {
					switches[fa.Field] = true
					pre = f
				}
			}
		}
	}
	if pre == nil {
		r.Unk(rule, "switches", "-", "no branch of the object validator on a boolean option decides a report: the schema-shape switches cannot be enumerated")
		return
	}
	if len(switches) == 0 {
		r.Unk(rule, "switches", p.Pos(pre.Pos()), "the pre-check reads no boolean option: nothing to decide")
		return
	}
	var swNames []string
	for k := range switches {
		swNames = append(swNames, core.FieldName(ost, k))
	}
	sort.Strings(swNames)
	// walker types: structs holding the *SpecValidator and a field of type *SchemaValidatorOptions
	type walker struct {
		t      *types.Named
		optIdx int
	}
	var walkers []walker
	for _, name := range p.Main.Pkg.Scope().Names() {
		tn, ok := p.Main.Pkg.Scope().Lookup(name).(*types.TypeName)
		if !ok {
			continue
		}
		nt, ok := tn.Type().(*types.Named)
		if !ok {
			continue
		}
		st, ok := nt.Underlying().(*types.Struct)
		if !ok {
			continue
		}
		emb, oi := false, -1
		for k := 0; k < st.NumFields(); k++ {
			f := st.Field(k)
			if n := core.NamedOf(f.Type()); n != nil && core.KnownTypeName(n) == "SpecValidator" {
				emb = true
			}
			if n := core.NamedOf(f.Type()); n != nil && n.Obj() == optsT.Obj() {
				oi = k
			}
		}
		if emb && oi >= 0 {
			walkers = append(walkers, walker{nt, oi})
		}
	}
	if len(walkers) < 2 {
		r.Unk(rule, "walkers", "-", fmt.Sprintf("expected the default and the example walker, found %d walker types", len(walkers)))
		return
	}
	nUses, nStores := 0, 0
	seq := map[string]int{}
	for _, w := range walkers {
		// (i) every validator constructed in the walker's methods takes the walker's own options
		for _, f := range p.Funcs {
			top := core.EnclosingTop(f)
			if top.Signature.Recv() == nil {
				continue
			}
			if n := core.NamedOf(top.Signature.Recv().Type()); n == nil || n.Obj() != w.t.Obj() {
				continue
			}
			core.EachInstr(f, func(i ssa.Instruction) {
				c, ok := i.(ssa.CallInstruction)
				if !ok {
					return
				}
				g := core.StaticCallee(c)
				if g == nil || !p.InSubject(g) {
					return
				}
				for k, a := range c.Common().Args {
					if n := core.NamedOf(a.Type()); n == nil || n.Obj() != optsT.Obj() {
						continue
					}
					_ = k
					nUses++
					base := core.FuncName(top) + ":" + g.Name() + ":options"
					seq[base]++
					key := base
					if seq[base] > 1 {
						key = fmt.Sprintf("%s#%d", base, seq[base])
					}
					own := false
					if ld, ok := a.(*ssa.UnOp); ok && ld.Op == token.MUL {
						if fa, ok := ld.X.(*ssa.FieldAddr); ok && fa.Field == w.optIdx {
							if n := core.NamedOf(fa.X.Type()); n != nil && n.Obj() == w.t.Obj() {
								own = true
							}
						}
					}
					if own {
						r.OK(rule, key, p.Pos(c.Pos()), "built with the walker's own options")
					} else {
						r.Bad(rule, key, p.Pos(c.Pos()), fmt.Sprintf("a validator that judges a default/example value is built with options other than the walker's own (%s): the swagger schema-shape rules (%s) are then applied to an instance value, and a value its schema accepts is reported", describe(a), strings.Join(swNames, ", ")))
					}
				}
			})
		}
		// (ii) what the walker's options field is given
		for _, f := range p.Funcs {
			core.EachInstr(f, func(i ssa.Instruction) {
				st, ok := i.(*ssa.Store)
				if !ok {
					return
				}
				fa, ok := st.Addr.(*ssa.FieldAddr)
				if !ok || fa.Field != w.optIdx {
					return
				}
				if n := core.NamedOf(fa.X.Type()); n == nil || n.Obj() != w.t.Obj() {
					return
				}
				nStores++
				key := core.FuncName(core.EnclosingTop(f)) + ":" + core.KnownTypeName(w.t) + ".options"
				// the private copy: an allocation of this function, or the result of a helper of the package whose every
				// return is such an allocation
				switchesOff := func(al *ssa.Alloc, before ssa.Instruction) []string {
					var missing []string
					for k := range switches {
						off := false
						for _, ref := range core.Refs(al) {
							sfa, ok := ref.(*ssa.FieldAddr)
							if !ok || sfa.Field != k {
								continue
							}
							for _, r2 := range core.Refs(sfa) {
								if s2, ok := r2.(*ssa.Store); ok && s2.Addr == ssa.Value(sfa) {
									if c, ok := s2.Val.(*ssa.Const); ok && c.Value != nil && c.Value.ExactString() == "false" && core.InstrDominates(s2, before) {
										off = true
									} else {
										off = false
									}
								}
							}
						}
						if !off {
							missing = append(missing, core.FieldName(ost, k))
						}
					}
					return missing
				}
				var missing []string
				switch v := st.Val.(type) {
				case *ssa.Alloc:
					missing = switchesOff(v, st)
				case *ssa.Call:
					h := core.StaticCallee(v)
					okH := h != nil && p.InSubject(h) && len(h.Blocks) > 0
					nRet := 0
					if okH {
						for _, hb := range h.Blocks {
							ret, isRet := hb.Instrs[len(hb.Instrs)-1].(*ssa.Return)
							if !isRet {
								continue
							}
							nRet++
							al, isAl := ret.Results[0].(*ssa.Alloc)
							if !isAl {
								okH = false
								continue
							}
							missing = append(missing, switchesOff(al, ret)...)
						}
					}
					if !okH || nRet == 0 {
						r.Bad(rule, key, p.Pos(st.Pos()), fmt.Sprintf("the %s is given %s as its options: not a private options value with the schema-shape switches (%s) turned off, so defaults/examples are judged with rules meant for the document's own schemas", core.KnownTypeName(w.t), describe(st.Val), strings.Join(swNames, ", ")))
						return
					}
				default:
					r.Bad(rule, key, p.Pos(st.Pos()), fmt.Sprintf("the %s is given %s as its options: not a private options value with the schema-shape switches (%s) turned off, so defaults/examples are judged with rules meant for the document's own schemas", core.KnownTypeName(w.t), describe(st.Val), strings.Join(swNames, ", ")))
					return
				}
				sort.Strings(missing)
				if len(missing) > 0 {
					r.Bad(rule, key, p.Pos(st.Pos()), "the options given to the "+core.KnownTypeName(w.t)+" leave "+strings.Join(missing, ", ")+" on: a default/example value containing an `items` or `type` member is judged by the swagger rules for schemas and reported although its schema accepts it")
				} else {
					r.OK(rule, key, p.Pos(st.Pos()), "private options value with "+strings.Join(swNames, ", ")+" stored false before it is handed to the walker")
				}
			})
		}
	}
	r.Count("value_validator_options", nUses)
	r.Count("walker_option_stores", nStores)
	r.Floor("value_validator_options", 6)
	r.Floor("walker_option_stores", 2)
}

// PANIC-BOUNDARY — go-openapi/spec panics (a method called on a typed nil pointer) when a JSON pointer lands on an
// optional member the document does not declare (`#/paths/~1a/put` without a put, `#/definitions/a/items`,
// `#/info/contact` …): the resolver walks the typed document, gets a nil pointer back without an error and
// marshals it. Specification validation promises to return its two results whatever the document contains: every
// call it makes into that reference machinery must therefore sit behind a recover (a deferred function literal
// that calls recover, in the calling function or in a wrapper the call is made through). Dependencies are
// otherwise trusted; this rule exists because that trust is known to be misplaced here.
func PanicBoundary(p *core.Prog, r *core.Report) {
	const rule = "PANIC-BOUNDARY"
	scope := specScope(p)
	recovers := func(f *ssa.Function) bool {
		found := false
		var visit func(g *ssa.Function)
		visit = func(g *ssa.Function) {
			core.EachInstr(g, func(i ssa.Instruction) {
				if c, ok := i.(ssa.CallInstruction); ok {
					if b, isB := c.Common().Value.(*ssa.Builtin); isB && b.Name() == "recover" {
						found = true
					}
				}
			})
		}
		core.EachInstr(f, func(i ssa.Instruction) {
			if d, ok := i.(*ssa.Defer); ok {
				if mc, ok := d.Call.Value.(*ssa.MakeClosure); ok {
					if fn, ok := mc.Fn.(*ssa.Function); ok {
						visit(fn)
					}
				}
				if fn, ok := d.Call.Value.(*ssa.Function); ok {
					visit(fn)
				}
			}
		})
		return found
	}
	n := 0
	seq := map[string]int{}
	for _, f := range p.Funcs {
		top := core.EnclosingTop(f)
		if !scope[top] {
			continue
		}
		core.EachInstr(f, func(i ssa.Instruction) {
			c, ok := i.(ssa.CallInstruction)
			if !ok {
				return
			}
			g := core.StaticCallee(c)
			if g == nil {
				return
			}
			q := core.QualName(g)
			machinery := strings.HasPrefix(q, "spec.Expand") || strings.HasPrefix(q, "spec.ResolveRef") || q == "(*loads.Document).Expanded"
			if !machinery {
				return
			}
			n++
			base := core.FuncName(top) + ":" + g.Name()
			seq[base]++
			key := base
			if seq[base] > 1 {
				key = fmt.Sprintf("%s#%d", base, seq[base])
			}
			// behind a recover: in this function, an enclosing one (closure handed to a wrapper), or the wrapper
			// that runs the closure
			guarded := false
			for h := f; h != nil; h = h.Parent() {
				if recovers(h) {
					guarded = true
				}
			}
			if !guarded && f.Parent() != nil {
				// the closure is an argument of a wrapper that recovers
				core.EachInstr(f.Parent(), func(j ssa.Instruction) {
					cc, ok := j.(ssa.CallInstruction)
					if !ok {
						return
					}
					w := core.StaticCallee(cc)
					if w == nil || !recovers(w) {
						return
					}
					for _, a := range cc.Common().Args {
						if mc, ok := a.(*ssa.MakeClosure); ok && mc.Fn == ssa.Value(f) {
							guarded = true
						}
					}
				})
			}
			if guarded {
				r.OK(rule, key, p.Pos(i.Pos()), "behind a recover")
			} else {
				r.Bad(rule, key, p.Pos(i.Pos()), core.FuncName(top)+" calls "+q+" with no recover on the way: a reference whose JSON pointer lands on an optional member the document does not declare ($ref: '#/paths/~1a/put' when /a has no put; '#/definitions/a/items'; '#/info/contact') makes go-openapi/spec call MarshalJSON on a typed nil pointer, and validate.Spec panics instead of returning its results")
			}
		})
	}
	r.Count("reference_machinery_calls", n)
	r.Floor("reference_machinery_calls", 5)
}
