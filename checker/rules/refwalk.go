package rules

import (
	"fmt"
	"strings"

	"golang.org/x/tools/go/ssa"

	"verifchk/core"
)

// REF-WALK — following references terminates. A document may contain reference cycles (a definition that is its
// own parent, an alias that leads back to itself); code that walks references must therefore carry a visited set:
//
//   (loop)      a loop whose continuation depends on a value it re-assigns from the result of a reference resolver
//               tests, inside the loop, a map that the same loop fills (`if _, again := followed[ref]; again {…}`);
//   (recursion) in a function that resolves references and calls itself, every path from a resolver call to the
//               recursive call passes a lookup in a map parameter that is handed on to the recursive call — the
//               path search follows boolean φs whose value is fixed along the path (`viaRef`), so a guard
//               `if viaRef || …` is seen to be taken after a resolution;
//   a function that recurses without such a test is acceptable only when each of its outside callers runs it after
//   a cycle detector of this very kind for the same definition and leaves when a cycle was found (reviewed table).
//
// Without it `validate.Spec` does not return: an infinite loop, or a fatal stack overflow that no caller can recover.
var refWalkAfterDetector = map[string]string{
	"(*SpecValidator).validateSchemaPropertyNames": "collects the property names of the ancestors; only called for a definition whose ancestry validateCircularAncestry has just found free of cycles (the caller returns otherwise)",
}

func isResolverCall(c ssa.CallInstruction) bool {
	g := core.StaticCallee(c)
	if g == nil {
		return false
	}
	q := core.QualName(g)
	return strings.HasSuffix(q, ".resolveRef") || strings.HasPrefix(q, "spec.ResolveRef") || strings.HasSuffix(q, ").resolveRef")
}

func RefWalk(p *core.Prog, r *core.Report) {
	const rule = "REF-WALK"
	nLoops, nRec := 0, 0
	passed := map[*ssa.Function]bool{}
	var recFuncs []*ssa.Function
	for _, f := range p.Funcs {
		if f.Parent() != nil {
			continue
		}
		var resolvers []*ssa.Call
		core.EachInstr(f, func(i ssa.Instruction) {
			if c, ok := i.(*ssa.Call); ok && isResolverCall(c) {
				resolvers = append(resolvers, c)
			}
		})
		if len(resolvers) == 0 {
			continue
		}
		fn := core.FuncName(f)
		// (loop)
		for _, loop := range allLoopsOf(f) {
			var inLoop *ssa.Call
			for _, rc := range resolvers {
				if loop[rc.Block()] {
					inLoop = rc
				}
			}
			if inLoop == nil {
				continue
			}
			// does the loop condition depend on a φ fed by the resolver's result? (re-assignment schc = reso)
			feeds := false
			for b := range loop {
				for _, ins := range b.Instrs {
					ph, ok := ins.(*ssa.Phi)
					if !ok {
						continue
					}
					for _, e := range ph.Edges {
						if ex, ok := e.(*ssa.Extract); ok && ex.Tuple == ssa.Value(inLoop) {
							feeds = true
						}
					}
				}
			}
			if !feeds {
				continue
			}
			nLoops++
			key := fn + ":loop"
			// visited test: a comma-ok Lookup in the loop on a map that a MapUpdate in the loop fills, whose
			// found-edge leaves the loop
			ok := false
			for b := range loop {
				for _, ins := range b.Instrs {
					lk, isLk := ins.(*ssa.Lookup)
					if !isLk {
						continue
					}
					// the set is filled, in the loop, under the very key that is looked up, and that key names the
					// reference currently being followed (it varies with the loop: derived from a φ of the loop)
					filled := false
					for b2 := range loop {
						for _, i2 := range b2.Instrs {
							if mu, isMU := i2.(*ssa.MapUpdate); isMU && mu.Map == lk.X && mu.Key == lk.Index {
								filled = true
							}
						}
					}
					varies := false
					var dep func(v ssa.Value, d int) bool
					dep = func(v ssa.Value, d int) bool {
						if d > 8 || v == nil {
							return false
						}
						if ph, isPhi := v.(*ssa.Phi); isPhi && loop[ph.Block()] {
							for _, e := range ph.Edges {
								if ex, ok := e.(*ssa.Extract); ok && ex.Tuple == ssa.Value(inLoop) {
									return true
								}
							}
						}
						if ins, isIns := v.(ssa.Instruction); isIns {
							for _, op := range ins.Operands(nil) {
								if op != nil && *op != nil && dep(*op, d+1) {
									return true
								}
							}
						}
						return false
					}
					varies = dep(lk.Index, 0)
					if !filled || !varies {
						continue
					}
					// some block guarded by found == true lies outside the loop (or returns)
					for _, ob := range f.Blocks {
						if loop[ob] {
							continue
						}
						for _, cd := range core.CondsAt(ob) {
							if ex, isEx := cd.Value.(*ssa.Extract); isEx && ex.Tuple == ssa.Value(lk) && ex.Index == 1 && cd.Sense {
								ok = true
							}
						}
					}
				}
			}
			if ok {
				r.OK(rule, key, p.Pos(inLoop.Pos()), "the loop following references tests a set of the references it has followed and leaves on a repeat")
			} else {
				r.Bad(rule, key, p.Pos(inLoop.Pos()), fn+" follows references in a loop (the loop variable is re-assigned from the resolver's result) without remembering which it has followed (a set that is tested and filled, in the loop, under the key of the reference being followed): an alias that leads back to itself — X: {$ref: Y}, Y: {$ref: X}, C: {allOf: [{$ref: X}]} — is followed for ever and validate.Spec never returns")
			}
		}
		// (recursion)
		var recCalls []*ssa.Call
		core.EachInstr(f, func(i ssa.Instruction) {
			if c, ok := i.(*ssa.Call); ok && core.StaticCallee(c) == f {
				recCalls = append(recCalls, c)
			}
		})
		if len(recCalls) == 0 {
			continue
		}
		nRec++
		recFuncs = append(recFuncs, f)
		key := fn + ":recursion"
		// map parameters handed on unchanged
		var visitedParams []ssa.Value
		for k, prm := range f.Params {
			if _, isMap := prm.Type().Underlying().(interface{ Key() interface{} }); isMap {
				_ = k
			}
			if strings.HasPrefix(prm.Type().Underlying().String(), "map[") {
				all := true
				for _, rc := range recCalls {
					if k >= len(rc.Call.Args) || rc.Call.Args[k] != ssa.Value(prm) {
						all = false
					}
				}
				if all {
					visitedParams = append(visitedParams, prm)
				}
			}
		}
		isVisitedLookup := func(ins ssa.Instruction) bool {
			lk, ok := ins.(*ssa.Lookup)
			if !ok {
				return false
			}
			for _, vp := range visitedParams {
				if lk.X == vp {
					return true
				}
			}
			return false
		}
		// path search from each resolver call to a recursive call avoiding visited lookups
		type state struct {
			b   *ssa.BasicBlock
			idx int
			env string
		}
		escaped := ""
		for _, rc := range resolvers {
			seen := map[string]bool{}
			var walk func(b *ssa.BasicBlock, from int, pred *ssa.BasicBlock, env map[*ssa.Phi]bool, depth int)
			walk = func(b *ssa.BasicBlock, from int, pred *ssa.BasicBlock, env map[*ssa.Phi]bool, depth int) {
				if escaped != "" || depth > 400 {
					return
				}
				// φs of this block take the value of the edge we came through
				if from == 0 && pred != nil {
					ne := map[*ssa.Phi]bool{}
					for k, v := range env {
						ne[k] = v
					}
					env = ne
					for _, ins := range b.Instrs {
						ph, ok := ins.(*ssa.Phi)
						if !ok {
							break
						}
						delete(env, ph)
						for pi, pb := range b.Preds {
							if pb == pred {
								if k, ok := ph.Edges[pi].(*ssa.Const); ok && k.Value != nil {
									if s := k.Value.ExactString(); s == "true" || s == "false" {
										env[ph] = s == "true"
									}
								}
								if op, ok := ph.Edges[pi].(*ssa.Phi); ok {
									if v, known := env[op]; known {
										env[ph] = v
									}
								}
							}
						}
					}
				}
				sk := fmt.Sprintf("%d/%d/", b.Index, from)
				for ph, v := range env {
					sk += fmt.Sprintf("%s=%v,", ph.Name(), v)
				}
				if seen[sk] {
					return
				}
				seen[sk] = true
				for k := from; k < len(b.Instrs); k++ {
					ins := b.Instrs[k]
					if isVisitedLookup(ins) {
						return // this path tests the visited set
					}
					if c, ok := ins.(*ssa.Call); ok && core.StaticCallee(c) == f {
						escaped = p.Pos(c.Pos())
						return
					}
				}
				last := b.Instrs[len(b.Instrs)-1]
				if ifi, ok := last.(*ssa.If); ok {
					cond, sense := ifi.Cond, true
					for {
						if u, ok := cond.(*ssa.UnOp); ok && u.Op.String() == "!" {
							cond, sense = u.X, !sense
							continue
						}
						break
					}
					if ph, ok := cond.(*ssa.Phi); ok {
						if v, known := env[ph]; known {
							t := v == sense
							if t {
								walk(b.Succs[0], 0, b, env, depth+1)
							} else {
								walk(b.Succs[1], 0, b, env, depth+1)
							}
							return
						}
					}
				}
				for _, s := range b.Succs {
					walk(s, 0, b, env, depth+1)
				}
			}
			walk(rc.Block(), core.InstrIndex(rc)+1, nil, map[*ssa.Phi]bool{}, 0)
		}
		switch {
		case escaped == "" && len(visitedParams) > 0:
			passed[f] = true
			r.OK(rule, key, p.Pos(f.Pos()), "every path from a resolved reference to the recursive call tests the visited set handed down the recursion")
		case refWalkAfterDetector[fn] != "":
			// checked below, once the detectors are known
		default:
			r.Bad(rule, key, escaped, fn+" resolves a reference and then calls itself on a path that never looks the reference up in a visited set: a definition that is its own parent through a reference the seed does not spell (`my def` vs `#/definitions/my%20def`, or a self-parent reached from another definition: A: allOf[$ref B], B: allOf[$ref B]) recurses for ever — fatal stack overflow, not a panic a caller could recover")
		}
	}
	// functions that rely on a preceding detector
	for _, f := range recFuncs {
		fn := core.FuncName(f)
		why := refWalkAfterDetector[fn]
		if why == "" || passed[f] {
			continue
		}
		key := fn + ":recursion"
		okAll, nSites := true, 0
		for _, caller := range p.Funcs {
			if caller == f {
				continue
			}
			core.EachInstr(caller, func(i ssa.Instruction) {
				c, ok := i.(*ssa.Call)
				if !ok || core.StaticCallee(c) != f {
					return
				}
				nSites++
				// a call of a detector dominates, and so does a return on its "found" outcome
				det := false
				core.EachInstr(caller, func(j ssa.Instruction) {
					if dc, ok := j.(*ssa.Call); ok && passed[core.StaticCallee(dc)] && core.InstrDominates(dc, c) {
						// some return is control dependent on a value derived from the detector's results
						for _, b := range caller.Blocks {
							if _, isRet := b.Instrs[len(b.Instrs)-1].(*ssa.Return); !isRet {
								continue
							}
							for _, cd := range core.CondsAt(b) {
								if dependsOnCall(cd.Value, dc, 0) {
									det = true
								}
							}
						}
					}
				})
				if !det {
					okAll = false
				}
			})
		}
		if okAll && nSites > 0 {
			r.OK(rule, key, p.Pos(f.Pos()), "reviewed: "+why+" (checked: each outside call site is dominated by a cycle detector whose positive outcome makes the caller return)")
		} else {
			r.Bad(rule, key, p.Pos(f.Pos()), fn+" follows references recursively without a visited set and is not (or no longer) protected by a cycle detector that runs first and stops the caller")
		}
	}
	r.Count("ref_following_loops", nLoops)
	r.Count("ref_following_recursions", nRec)
	r.Floor("ref_following_loops", 2)
	r.Floor("ref_following_recursions", 2)
}

func dependsOnCall(v ssa.Value, c *ssa.Call, d int) bool {
	if d > 8 || v == nil {
		return false
	}
	if v == ssa.Value(c) {
		return true
	}
	if ins, ok := v.(ssa.Instruction); ok {
		for _, op := range ins.Operands(nil) {
			if op != nil && *op != nil && dependsOnCall(*op, c, d+1) {
				return true
			}
		}
	}
	return false
}
