package rules

import (
	"fmt"
	"go/constant"
	"go/token"
	"strings"

	"golang.org/x/tools/go/ssa"

	"verifchk/core"
)

// COUNTING — the allOf/anyOf/oneOf/not decisions depend on the sub-results only through a counter and
// validity tests: they are decided exactly by evaluating the post-loop region of each function by
// constant propagation for every value of the counter (and of the number of alternatives).

func newRegionInterp(p *core.Prog, na *nilAn) *dynInterp {
	kindPredProg = p
	return &dynInterp{p: p, na: na, memo: map[string]aval{}, open: map[string]bool{}, issues: map[string]*dynIssue{}, atoms: map[string]map[string]bool{}, checked: map[ssa.Instruction]bool{}, dataPos: map[*ssa.Function]map[int]bool{}, reached: map[*ssa.BasicBlock]bool{}, analysed: map[*ssa.Function]bool{}, arith: true, startAt: map[*ssa.Function]*ssa.BasicBlock{}, preset: map[ssa.Value]aval{}}
}

// messagesReached runs the region and returns the message constructors reached, with their constant string arguments.
func messagesReached(p *core.Prog, na *nilAn, f *ssa.Function, start *ssa.BasicBlock, preset map[ssa.Value]aval) []string {
	di := newRegionInterp(p, na)
	di.startAt[f] = start
	for k, v := range preset {
		di.preset[k] = v
	}
	args := make([]aval, len(f.Params))
	for i := range args {
		args[i] = top
	}
	di.run(f, args, 0)
	var out []string
	for _, t := range di.trace {
		if !strings.HasSuffix(t.callee, "Msg") {
			continue
		}
		var cs []string
		for _, a := range t.args {
			if a.k == avConst && a.c.Kind() == constant.String {
				cs = append(cs, constant.StringVal(a.c))
			}
		}
		name := t.callee[strings.LastIndex(t.callee, ".")+1:]
		out = append(out, name+"("+strings.Join(cs, ",")+")")
	}
	return out
}

func loopExitOf(phi *ssa.Phi) *ssa.BasicBlock {
	// the counter lives in a range loop: find the loop header (block ending in an If that dominates the phi's uses) —
	// for range loops lowered by go/ssa the phi sits in the header whose false edge leaves the loop
	h := phi.Block()
	if ifi, ok := h.Instrs[len(h.Instrs)-1].(*ssa.If); ok && len(h.Succs) == 2 {
		_ = ifi
		return h.Succs[1]
	}
	return nil
}

func Counting(p *core.Prog, r *core.Report) {
	const rule = "COUNTING"
	na := newNilAn(p)
	// the counter: an integer phi in a loop header that is fed (directly or through a join phi) by itself + 1
	counterOf := func(f *ssa.Function, _ string) *ssa.Phi {
		var out *ssa.Phi
		core.EachInstr(f, func(i ssa.Instruction) {
			bo, ok := i.(*ssa.BinOp)
			if !ok || bo.Op != token.ADD {
				return
			}
			phi, ok := bo.X.(*ssa.Phi)
			if !ok {
				return
			}
			if k, isK := core.ConstInt(bo.Y); !isK || k != 1 {
				return
			}
			if _, isIf := phi.Block().Instrs[len(phi.Block().Instrs)-1].(*ssa.If); !isIf {
				return
			}
			// exclude the range index itself: its increment sits in the header block
			if bo.Block() == phi.Block() {
				return
			}
			if dependsOn(phi.Edges[len(phi.Edges)-1], bo, 0) || feeds(bo, phi) {
				out = phi
			}
		})
		return out
	}
	// ---- oneOf: the errors kept from failing alternatives are void when exactly one alternative holds -------
	// (they are merged into the final result by the caller: an alternative that fails *after* the successful one
	// would otherwise turn a valid verdict into an invalid one, depending on the order of the alternatives)
	if f := p.Func("(*schemaPropsValidator).validateOneOf"); f != nil && len(f.Params) >= 4 {
		keep := f.Params[len(f.Params)-1]
		phi := counterOf(f, "validated")
		voided := false
		// the clearing may sit in a helper that receives the kept result and the counter (the conclusion of the
		// function split off): followed through static calls that hand both on
		var voidedIn func(fn *ssa.Function, keepV, cntV ssa.Value, d int) bool
		voidedIn = func(fn *ssa.Function, keepV, cntV ssa.Value, d int) bool {
			found := false
			core.EachInstr(fn, func(i ssa.Instruction) {
				c, ok := i.(*ssa.Call)
				if !ok || found {
					return
				}
				g := core.StaticCallee(c)
				if g == nil || len(c.Call.Args) == 0 {
					return
				}
				if g.Name() == "cleared" && c.Call.Args[0] == keepV {
					// after the loop, on the "exactly one" arm
					for _, cd := range core.CondsAt(c.Block()) {
						if bo, ok := cd.Value.(*ssa.BinOp); ok && bo.Op == token.EQL && cd.Sense {
							if k, isK := core.ConstInt(bo.Y); isK && k == 1 && (bo.X == cntV || dependsOn(bo.X, cntV, 0)) {
								found = true
							}
						}
					}
					return
				}
				if d >= 2 || !p.InSubject(g) || len(g.Blocks) == 0 || len(g.Params) != len(c.Call.Args) {
					return
				}
				kj, ci := -1, -1
				for idx, a := range c.Call.Args {
					if a == keepV {
						kj = idx
					}
					if a == cntV {
						ci = idx
					}
				}
				if kj >= 0 && ci >= 0 && voidedIn(g, g.Params[kj], g.Params[ci], d+1) {
					found = true
				}
			})
			return found
		}
		if phi != nil {
			voided = voidedIn(f, keep, phi, 0)
		}
		if voided {
			r.OK(rule, "oneOf:kept-errors", p.Pos(f.Pos()), "the errors kept from failing alternatives are cleared on the arm where exactly one alternative holds")
		} else {
			r.Bad(rule, "oneOf:kept-errors", p.Pos(f.Pos()), "the 'important' errors kept from failing alternatives survive when exactly one alternative holds (they are only cleared at the moment an alternative succeeds; an alternative failing after it adds them again and the caller merges them): {\"oneOf\":[{\"required\":[\"headers\"]},{\"additionalProperties\":false}]} rejects {\"headers\":{\"h\":{\"$ref\":\"#/x\"}}} although exactly one alternative holds, and accepts it with the alternatives swapped")
		}
	}
	// ---- every composition keyword with at least one member is applied ------------------------------------
	// (the dispatcher calls validateAnyOf / validateOneOf / validateAllOf under a test of the number of members:
	// that test must be "at least one" — `> 1` lets {"oneOf": [S]} accept everything)
	if f := p.Func("(*schemaPropsValidator).Validate"); f != nil {
		nG := 0
		core.EachInstr(f, func(i ssa.Instruction) {
			c, ok := i.(*ssa.Call)
			if !ok {
				return
			}
			g := core.StaticCallee(c)
			if g == nil || g.Signature.Recv() == nil || len(c.Call.Args) == 0 || g == f {
				return
			}
			// on the receiver itself (possibly through the cell the deferred closure shares)
			if rp, ok := core.StablePath(c.Call.Args[0]); !ok || rp != f.Params[0].Name() {
				return
			}
			for _, cd := range core.ControlConds(c.Block()) {
				bo, ok := cd.Value.(*ssa.BinOp)
				if !ok {
					continue
				}
				lenOf := func(v ssa.Value) bool {
					lc, ok := v.(*ssa.Call)
					if !ok {
						return false
					}
					b, ok := lc.Call.Value.(*ssa.Builtin)
					if !ok || b.Name() != "len" {
						return false
					}
					pth, ok := core.StablePath(lc.Call.Args[0])
					return ok && strings.HasPrefix(pth, f.Params[0].Name()+".")
				}
				op, k, has := bo.Op, int64(0), false
				if lenOf(bo.X) {
					k, has = core.ConstInt(bo.Y)
				} else if lenOf(bo.Y) {
					k, has = core.ConstInt(bo.X)
					switch op { // k OP len  ==  len OP' k
					case token.LSS:
						op = token.GTR
					case token.GTR:
						op = token.LSS
					case token.LEQ:
						op = token.GEQ
					case token.GEQ:
						op = token.LEQ
					}
				}
				if !has {
					continue
				}
				nG++
				// the guard as a predicate "len ≥ 1"?
				atLeastOne := false
				switch {
				case cd.Sense && ((op == token.GTR && k == 0) || (op == token.NEQ && k == 0) || (op == token.GEQ && k == 1)):
					atLeastOne = true
				case !cd.Sense && ((op == token.EQL && k == 0) || (op == token.LSS && k == 1) || (op == token.LEQ && k == 0)):
					atLeastOne = true
				}
				key := "applied-when-nonempty:" + g.Name()
				if atLeastOne {
					r.OK(rule, key, p.Pos(c.Pos()), g.Name()+" runs whenever the keyword has at least one member")
				} else {
					r.Bad(rule, key, p.Pos(c.Pos()), fmt.Sprintf("%s runs only when the number of members satisfies `len %s %d` (%v): a keyword with fewer members than that is silently ignored — {\"oneOf\": [S]} then accepts every instance", g.Name(), op, k, cd.Sense))
				}
			}
		})
		r.Count("composition_guards", nG)
		r.Floor("composition_guards", 3)
	}
	// ---- oneOf -------------------------------------------------------------------------------
	if f := p.Func("(*schemaPropsValidator).validateOneOf"); f != nil {
		phi := counterOf(f, "validated")
		if phi == nil || loopExitOf(phi) == nil {
			r.Unk(rule, "oneOf:counter", p.Pos(f.Pos()), "cannot find the counter of valid alternatives and the loop it is computed in")
		} else {
			exit := loopExitOf(phi)
			var bad []string
			maxK := int64(3)
			if Deep {
				maxK = 8
			}
			for k := int64(0); k <= maxK; k++ {
				msgs := messagesReached(p, na, f, exit, map[ssa.Value]aval{phi: cInt(k)})
				got := strings.Join(msgs, ";")
				ok := false
				switch {
				case k == 1:
					ok = got == ""
				default:
					// (the wording of the message is not checked: only that exactly one "only one schema" error is produced)
					ok = len(msgs) == 1 && strings.HasPrefix(msgs[0], "mustValidateOnlyOneSchemaMsg(")
				}
				if !ok {
					bad = append(bad, fmt.Sprintf("%d valid alternative(s) -> [%s]", k, got))
				}
			}
			if len(bad) == 0 {
				r.OK(rule, "oneOf:exactly-one", p.Pos(f.Pos()), "0 valid → 'none valid' error; exactly 1 → no error; ≥2 → 'several valid' error (evaluated for 0..3)")
			} else {
				r.Bad(rule, "oneOf:exactly-one", p.Pos(f.Pos()), "oneOf does not mean 'exactly one alternative is valid': "+strings.Join(bad, "; "))
			}
		}
		// the counter is incremented exactly for valid alternatives
		checkCounterIncrement(p, r, rule, f, "oneOf")
	}
	// ---- allOf -------------------------------------------------------------------------------
	if f := p.Func("(*schemaPropsValidator).validateAllOf"); f != nil {
		phi := counterOf(f, "validated")
		if phi == nil || loopExitOf(phi) == nil {
			r.Unk(rule, "allOf:counter", p.Pos(f.Pos()), "cannot find the counter of valid members")
		} else {
			exit := loopExitOf(phi)
			// the number of members: len(<receiver>.allOfValidators) evaluated after the loop
			var lenCalls []*ssa.Call
			core.EachInstr(f, func(i ssa.Instruction) {
				c, ok := i.(*ssa.Call)
				if !ok {
					return
				}
				if b, isB := c.Call.Value.(*ssa.Builtin); isB && b.Name() == "len" && exit.Dominates(c.Block()) {
					if pth, has := core.StablePath(c.Call.Args[0]); has && strings.HasSuffix(pth, "allOfValidators") {
						lenCalls = append(lenCalls, c)
					}
				}
			})
			if len(lenCalls) == 0 {
				r.Bad(rule, "allOf:all", p.Pos(f.Pos()), "the number of valid members is not compared with the number of allOf members")
			} else {
				var bad []string
				maxN := int64(3)
				if Deep {
					maxN = 7
				}
				for n := int64(1); n <= maxN; n++ {
					for k := int64(0); k <= n; k++ {
						preset := map[ssa.Value]aval{phi: cInt(k)}
						for _, lc := range lenCalls {
							preset[lc] = cInt(n)
						}
						msgs := messagesReached(p, na, f, exit, preset)
						got := strings.Join(msgs, ";")
						okc := len(msgs) == 1 && strings.HasPrefix(msgs[0], "mustValidateAllSchemasMsg(")
						want := "one mustValidateAllSchemasMsg"
						if k == n {
							okc = got == ""
							want = "no message"
						}
						if !okc {
							bad = append(bad, fmt.Sprintf("%d of %d valid -> [%s], expected %s", k, n, got, want))
						}
					}
				}
				if len(bad) == 0 {
					r.OK(rule, "allOf:all", p.Pos(f.Pos()), "error exactly when fewer than all members are valid (evaluated for 1..3 members)")
				} else {
					r.Bad(rule, "allOf:all", p.Pos(f.Pos()), "allOf does not mean 'every member is valid': "+strings.Join(bad, "; "))
				}
			}
		}
		checkCounterIncrement(p, r, rule, f, "allOf")
	}
	// ---- anyOf: the error is added exactly when the loop ends without a valid alternative ------
	if f := p.Func("(*schemaPropsValidator).validateAnyOf"); f != nil {
		var msg *ssa.Call
		core.EachInstr(f, func(i ssa.Instruction) {
			if c, ok := i.(*ssa.Call); ok {
				if g := core.StaticCallee(c); g != nil && core.BaseName(g) == "mustValidateAtLeastOneSchemaMsg" {
					msg = c
				}
			}
		})
		ok := false
		if msg != nil {
			// not inside the loop, and every early return inside the loop is under IsValid(result) of the alternative just run
			inLoop := false
			for _, ml := range allLoopsOf(f) {
				if ml[msg.Block()] {
					inLoop = true
				}
			}
			ok = !inLoop
			for _, ri := range returnsOf(f) {
				if core.InstrDominates(msg, ri.ret) {
					continue
				}
				valid := false
				for _, c := range ri.conds {
					if call, is := c.Value.(*ssa.Call); is && c.Sense {
						if g := core.StaticCallee(call); g != nil && core.FuncName(g) == "(*Result).IsValid" {
							if vc, isV := call.Call.Args[0].(*ssa.Call); isV {
								if vg := core.StaticCallee(vc); vg != nil && core.FuncName(vg) == "(*SchemaValidator).Validate" {
									valid = true
								}
							}
						}
					}
				}
				if !valid {
					ok = false
				}
			}
		}
		if ok {
			r.OK(rule, "anyOf:at-least-one", p.Pos(f.Pos()), "returns without error as soon as an alternative is valid; 'must validate at least one' after the loop otherwise")
		} else {
			r.Bad(rule, "anyOf:at-least-one", p.Pos(f.Pos()), "anyOf does not mean 'at least one alternative is valid'")
		}
	}
	// ---- not: error exactly when the sub-schema accepts ------------------------------------------
	if f := p.Func("(*schemaPropsValidator).validateNot"); f != nil {
		ok := false
		core.EachInstr(f, func(i ssa.Instruction) {
			c, is := i.(*ssa.Call)
			if !is {
				return
			}
			if g := core.StaticCallee(c); g == nil || g.Name() != "mustNotValidatechemaMsg" {
				return
			}
			conds := core.ControlConds(c.Block())
			n := 0
			for _, cd := range conds {
				if call, isC := cd.Value.(*ssa.Call); isC {
					if g := core.StaticCallee(call); g != nil && core.FuncName(g) == "(*Result).IsValid" && cd.Sense {
						if vc, isV := call.Call.Args[0].(*ssa.Call); isV {
							if vg := core.StaticCallee(vc); vg != nil && core.FuncName(vg) == "(*SchemaValidator).Validate" {
								n++
								continue
							}
						}
					}
				}
				if pth, has := core.StablePath(cd.Value); has && strings.HasSuffix(pth, recycleSuffix) {
					continue
				}
				n = -100
			}
			ok = n == 1
		})
		if ok {
			r.OK(rule, "not:negation", p.Pos(f.Pos()), "the error is added exactly on the IsValid() edge of the result of validating the instance against the sub-schema")
		} else {
			r.Bad(rule, "not:negation", p.Pos(f.Pos()), "'not' is not the negation of the sub-schema's verdict")
		}
	}
}

// allLoopsOf returns the natural loops of f (as block sets).
func allLoopsOf(f *ssa.Function) []map[*ssa.BasicBlock]bool {
	var out []map[*ssa.BasicBlock]bool
	for _, h := range f.Blocks {
		in := map[*ssa.BasicBlock]bool{}
		var stack []*ssa.BasicBlock
		for _, pr := range h.Preds {
			if h.Dominates(pr) {
				in[pr] = true
				stack = append(stack, pr)
			}
		}
		if len(stack) == 0 {
			continue
		}
		in[h] = true
		for len(stack) > 0 {
			b := stack[len(stack)-1]
			stack = stack[:len(stack)-1]
			for _, pr := range b.Preds {
				if !in[pr] && h.Dominates(pr) {
					in[pr] = true
					stack = append(stack, pr)
				}
			}
		}
		out = append(out, in)
	}
	return out
}

// checkCounterIncrement: `validated++` happens exactly on the IsValid() edge of the alternative just validated.
func checkCounterIncrement(p *core.Prog, r *core.Report, rule string, f *ssa.Function, what string) {
	n, ok := 0, true
	core.EachInstr(f, func(i ssa.Instruction) {
		bo, is := i.(*ssa.BinOp)
		if !is || (bo.Op != token.ADD && bo.Op != token.SUB) {
			return
		}
		phi, isPhi := bo.X.(*ssa.Phi)
		if !isPhi || bo.Block() == phi.Block() || !feeds(bo, phi) {
			return
		}
		if k, isK := core.ConstInt(bo.Y); !isK || k != 1 {
			ok = false
			return
		}
		n++
		valid := false
		for _, c := range core.CondsAt(bo.Block()) {
			if call, isC := c.Value.(*ssa.Call); isC && c.Sense {
				if g := core.StaticCallee(call); g != nil && core.FuncName(g) == "(*Result).IsValid" {
					valid = true
				}
			}
		}
		if !valid {
			ok = false
		}
	})
	if n == 1 && ok {
		r.OK(rule, what+":counter", p.Pos(f.Pos()), "the counter is incremented by one exactly on the IsValid() edge of the alternative")
	} else {
		r.Bad(rule, what+":counter", p.Pos(f.Pos()), "the counter of valid alternatives is not incremented exactly once per valid alternative")
	}
}

// feeds: the value v flows back into phi (directly or through join phis).
func feeds(v ssa.Value, phi *ssa.Phi) bool {
	seen := map[ssa.Value]bool{}
	var walk func(x ssa.Value) bool
	walk = func(x ssa.Value) bool {
		if seen[x] {
			return false
		}
		seen[x] = true
		for _, ref := range core.Refs(x) {
			if p, ok := ref.(*ssa.Phi); ok {
				if p == phi || walk(p) {
					return true
				}
			}
		}
		return false
	}
	return walk(v)
}
