package rules

import (
	"fmt"
	"go/types"

	"golang.org/x/tools/go/ssa"

	"verifchk/core"
)

// RESET-BETWEEN — the default and example walkers cut recursion with a set of visited paths. A top-level walk
// must start from an empty set: if two walks share the set, a path of the second that spells a path of the
// first (a body parameter named like a response code, a definition named "a.b" next to property b of a) is
// taken for already visited and its defaults / examples are never checked.
//
// Typestate on the CFG of every driver (a method of the walker type that starts walks but is not itself part
// of the recursion): state clean after the reset method, dirty after a walk or after a call to another driver;
// function entry is dirty. Every call that starts a walk must be reached in state clean on every path
// (forward must-analysis, loops included: the second iteration of a loop that walks without resetting is dirty).
func ResetBetween(p *core.Prog, r *core.Report) {
	const rule = "RESET-BETWEEN"
	nWalks := 0
	for _, tn := range []string{"defaultValidator", "exampleValidator"} {
		// methods of the type
		var methods []*ssa.Function
		for _, f := range p.Funcs {
			if f.Parent() == nil && f.Signature.Recv() != nil {
				if n := core.NamedOf(f.Signature.Recv().Type()); n != nil && core.KnownTypeName(n) == tn {
					methods = append(methods, f)
				}
			}
		}
		// the visited-set field: the map[string]struct{} field of the type
		fieldIdx := -1
		if len(methods) > 0 {
			if st, ok := core.NamedOf(methods[0].Signature.Recv().Type()).Underlying().(*types.Struct); ok {
				for k := 0; k < st.NumFields(); k++ {
					if m, ok := st.Field(k).Type().Underlying().(*types.Map); ok {
						if s, ok := m.Elem().Underlying().(*types.Struct); ok && s.NumFields() == 0 {
							fieldIdx = k
						}
					}
				}
			}
		}
		if fieldIdx < 0 {
			r.Unk(rule, tn+":visited-set", "-", "cannot find the walker type or its visited-set field")
			continue
		}
		// classify the methods by what they do to the field
		reads, adds, empties := map[*ssa.Function]bool{}, map[*ssa.Function]bool{}, map[*ssa.Function]bool{}
		for _, f := range methods {
			core.EachInstr(f, func(i ssa.Instruction) {
				fa, ok := i.(*ssa.FieldAddr)
				if !ok || fa.Field != fieldIdx || fa.X != ssa.Value(f.Params[0]) {
					return
				}
				for _, ref := range core.Refs(fa) {
					switch x := ref.(type) {
					case *ssa.Store:
						if _, mk := x.Val.(*ssa.MakeMap); mk && x.Addr == ssa.Value(fa) {
							empties[f] = true
						}
					case *ssa.UnOp:
						for _, r2 := range core.Refs(x) {
							switch y := r2.(type) {
							case *ssa.MapUpdate:
								adds[f] = true
							case *ssa.Lookup:
								reads[f] = true
							case ssa.CallInstruction:
								if b, ok := y.Common().Value.(*ssa.Builtin); ok && b.Name() == "delete" {
									empties[f] = true
								} else {
									reads[f] = true // handed to a helper (isVisited(path, set))
								}
							case *ssa.Range:
								// the clearing loop ranges over the set
							}
						}
					}
				}
			})
		}
		var reset *ssa.Function
		for f := range empties {
			if !adds[f] {
				reset = f
			}
		}
		if reset == nil {
			r.Unk(rule, tn+":reset", "-", "no method of the walker empties the visited set")
			continue
		}
		// walkers: methods that call a method that adds to / reads the set (other than the reset)
		isMethod := map[*ssa.Function]bool{}
		for _, f := range methods {
			isMethod[f] = true
		}
		calls := func(f *ssa.Function, pred func(g *ssa.Function) bool) bool {
			hit := false
			core.EachInstr(f, func(i ssa.Instruction) {
				if c, ok := i.(ssa.CallInstruction); ok {
					if g := core.StaticCallee(c); g != nil && isMethod[g] && pred(g) {
						hit = true
					}
				}
			})
			return hit
		}
		walker := map[*ssa.Function]bool{}
		for _, f := range methods {
			if f != reset && calls(f, func(g *ssa.Function) bool { return g != reset && (adds[g] || reads[g]) }) {
				walker[f] = true
			}
		}
		// drivers: reach a walker, are not walkers (transitively)
		startsWalk := map[*ssa.Function]bool{}
		for changed := true; changed; {
			changed = false
			for _, f := range methods {
				if walker[f] || startsWalk[f] || f == reset {
					continue
				}
				if calls(f, func(g *ssa.Function) bool { return walker[g] || startsWalk[g] }) {
					startsWalk[f], changed = true, true
				}
			}
		}
		for _, f := range methods {
			if !startsWalk[f] {
				continue
			}
			fn := core.FuncName(f)
			// forward must-analysis: clean[b] = state at block entry (true = clean on every path)
			const (
				unk   = 0
				clean = 1
				dirty = 2
			)
			in := map[*ssa.BasicBlock]int{f.Blocks[0]: dirty}
			transfer := func(b *ssa.BasicBlock, st int, report bool, seq map[string]int) int {
				for _, i := range b.Instrs {
					c, ok := i.(ssa.CallInstruction)
					if !ok {
						continue
					}
					if _, isDefer := i.(*ssa.Defer); isDefer {
						continue
					}
					g := core.StaticCallee(c)
					if g == nil || !isMethod[g] {
						continue
					}
					switch {
					case g == reset:
						st = clean
					case walker[g]:
						if report {
							nWalks++
							base := fn + ":" + g.Name()
							seq[base]++
							key := base
							if seq[base] > 1 {
								key = fmt.Sprintf("%s#%d", base, seq[base])
							}
							if st == clean {
								r.OK(rule, key, p.Pos(c.Pos()), "the visited set is emptied on every path between the previous walk (or the function's entry) and this one")
							} else {
								r.Bad(rule, key, p.Pos(c.Pos()), "this walk can start with the visited paths of an earlier walk (no reset since the previous walk on some path, e.g. the previous iteration of the enclosing loop): a schema whose path spells an already visited one — a body parameter named like a response code, a definition named like a property path of another — is skipped and its defaults / examples are never checked")
							}
						}
						st = dirty
					case startsWalk[g]:
						st = dirty
					}
				}
				return st
			}
			work := []*ssa.BasicBlock{f.Blocks[0]}
			for len(work) > 0 {
				b := work[0]
				work = work[1:]
				out := transfer(b, in[b], false, nil)
				for _, s := range b.Succs {
					old := in[s]
					nw := out
					if old != unk && old != out {
						nw = dirty
					}
					if old != nw {
						in[s] = nw
						work = append(work, s)
					}
				}
			}
			seq := map[string]int{}
			for _, b := range f.Blocks {
				if st, ok := in[b]; ok {
					transfer(b, st, true, seq)
				}
			}
		}
	}
	r.Count("top_level_walks", nWalks)
	r.Floor("top_level_walks", 4)
}
