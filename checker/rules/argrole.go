package rules

import (
	"fmt"
	"go/token"
	"go/types"
	"strings"

	"golang.org/x/tools/go/ssa"

	"verifchk/core"
)

// ARG-ROLE — argument selection between values of the same type. The package threads a few roles through every
// call: the location of the value (path), the place of the parameter (in), the caller's format registry, the
// options. They are plain strings / interfaces, so handing the wrong one over compiles and mostly "works":
// messages lose or swap their location, a sub-validator consults another registry. For every call of a package
// function (and of the error constructors of go-openapi/errors):
//   - two arguments of the same type that are named exactly like each other's parameter are swapped;
//   - an error or message built inside a method of a validator from fields of that validator includes the
//     validator's own path (an error located only by `in` names no member);
//   - a format-registry parameter receives the caller's own registry (its field or parameter of that type), never
//     the process-wide default — except where the code substitutes the default for a nil registry.
func ArgRole(p *core.Prog, r *core.Report) {
	const rule = "ARG-ROLE"
	srcName := func(v ssa.Value) string {
		for d := 0; d < 4; d++ {
			switch x := v.(type) {
			case *ssa.UnOp:
				if x.Op == token.MUL {
					v = x.X
					continue
				}
			case *ssa.FieldAddr:
				_, n, _ := core.FieldOf(x)
				return n
			case *ssa.Field:
				_, n, _ := core.FieldOf(x)
				return n
			case *ssa.Parameter:
				return x.Name()
			case *ssa.ChangeType:
				v = x.X
				continue
			case *ssa.MakeInterface:
				v = x.X
				continue
			}
			break
		}
		return ""
	}
	isPathName := func(n string) bool { return n == "path" || n == "Path" }
	n := 0
	seq := map[string]int{}
	for _, f := range p.Funcs {
		if !p.InSubject(f) {
			continue
		}
		fn := core.FuncName(f)
		core.EachInstr(f, func(i ssa.Instruction) {
			c, ok := i.(ssa.CallInstruction)
			if !ok {
				return
			}
			g := core.StaticCallee(c)
			if g == nil {
				return
			}
			inErrors := g.Pkg != nil && strings.HasSuffix(g.Pkg.Pkg.Path(), "go-openapi/errors")
			if !p.InSubject(g) && !inErrors {
				return
			}
			if isValueEqualityPredicate(p, g) || isEqualityHelper(p, g) {
				return // an equality is symmetric: its two operands may be handed over in either order
			}
			sig := g.Signature
			args := c.Common().Args
			off := 0
			if sig.Recv() != nil {
				off = 1
			}
			var problems []string
			names := make([]string, sig.Params().Len())
			for k := 0; k < sig.Params().Len(); k++ {
				names[k] = sig.Params().At(k).Name()
			}
			for k := 0; k < sig.Params().Len() && k+off < len(args); k++ {
				pn := names[k]
				pt := sig.Params().At(k).Type().String()
				// registry
				if strings.HasSuffix(pt, "strfmt.Registry") {
					av := args[k+off]
					for d := 0; d < 3; d++ {
						switch x := av.(type) {
						case *ssa.ChangeInterface:
							av = x.X
						case *ssa.MakeInterface:
							av = x.X
						case *ssa.ChangeType:
							av = x.X
						}
					}
					if ld, ok := av.(*ssa.UnOp); ok && ld.Op == token.MUL {
						if gl, ok := ld.X.(*ssa.Global); ok && gl.Pkg != nil && gl.Pkg != p.Main && gl.Pkg != p.Post {
							problems = append(problems, "the process-wide "+gl.Name()+" registry is handed over instead of the caller's own registry")
						}
					}
				}
				an := srcName(args[k+off])
				if an == "" {
					continue
				}
				// swapped pair
				for j := k + 1; j < sig.Params().Len() && j+off < len(args); j++ {
					if sig.Params().At(j).Type().String() != pt {
						continue
					}
					aj := srcName(args[j+off])
					if aj != "" && an != aj && an == names[j] && aj == pn {
						problems = append(problems, fmt.Sprintf("arguments %q and %q are handed over in the order of the other's parameter (%s, %s)", an, aj, pn, names[j]))
					} else if aj != "" && roleOf(an) != "" && roleOf(aj) != "" && roleOf(an) != roleOf(aj) && roleOf(an) == roleOf(names[j]) && roleOf(aj) == roleOf(pn) {
						// the same by role: the location of the value (path / name) and the place of the parameter (in)
						problems = append(problems, fmt.Sprintf("the location %q and the place %q change places: they are handed over as (%s, %s)", an+"/"+aj, roleOf(an)+"/"+roleOf(aj), pn, names[j]))
					}
				}
				// an argument that bears the name of another parameter of the same type, whose own slot is filled by
				// something else: p.param.Format handed over as `in` while `format` receives p.param.In
				looseNames := p.InSubject(g) && strings.HasSuffix(g.Name(), "Msg") // the message helpers name their parameters loosely
				// the place of the parameter handed over as the location of the value (or the other way round), whatever
				// the other arguments are: Maximum(n.In, n.In, …) names no member
				// (the other direction — a path handed over as `in` next to a keyword as the name — is how the swagger
				// schema-shape rules of the object validator report, outside what C17 claims: left alone)
				if !looseNames && roleOf(an) == "in" && roleOf(pn) == "loc" {
					problems = append(problems, fmt.Sprintf("argument %q (%s) is handed over as %q (%s)", an, roleOf(an), pn, roleOf(pn)))
				}
				for j := 0; !looseNames && j < sig.Params().Len() && j+off < len(args); j++ {
					if j == k || sig.Params().At(j).Type().String() != pt {
						continue
					}
					aj := srcName(args[j+off])
					if canonRole(an) != canonRole(pn) && canonRole(an) == canonRole(names[j]) && canonRole(aj) != canonRole(names[j]) {
						problems = append(problems, fmt.Sprintf("argument %q is handed over as %q while the parameter %q of the same type receives %q", an, pn, names[j], aj))
					}
				}
			}
			// located error: built from the receiver's fields => must include the receiver's path
			isMsg := inErrors || (p.InSubject(g) && strings.HasSuffix(g.Name(), "Msg"))
			if isMsg && f.Signature.Recv() != nil && len(f.Params) > 0 {
				usesRecvString, usesPath := false, false
				recvName := f.Params[0].Name()
				var scan func(v ssa.Value, d int)
				scan = func(v ssa.Value, d int) {
					if d > 6 {
						return
					}
					switch x := v.(type) {
					case *ssa.UnOp:
						if x.Op == token.MUL {
							scan(x.X, d+1)
						}
					case *ssa.FieldAddr:
						if bp, ok := core.StablePath(x.X); ok && bp == recvName {
							if pt, ok := x.Type().Underlying().(*types.Pointer); ok && pt.Elem().String() == "string" {
								usesRecvString = true
								if _, fname, _ := core.FieldOf(x); isPathName(fname) {
									usesPath = true
								}
							}
						}
					case *ssa.BinOp:
						scan(x.X, d+1)
						scan(x.Y, d+1)
					case *ssa.MakeInterface:
						scan(x.X, d+1)
					case *ssa.Call:
						if h := core.StaticCallee(x); h != nil && core.QualName(h) == "fmt.Sprintf" && len(x.Call.Args) > 1 {
							for _, e := range varargElems(x.Call.Args[1]) {
								scan(e, d+1)
							}
						}
					case *ssa.Phi:
						for _, e := range x.Edges {
							scan(e, d+1)
						}
					}
				}
				for _, a := range args {
					scan(a, 0)
				}
				hasPathField := false
				if nt := core.NamedOf(f.Signature.Recv().Type()); nt != nil {
					if st, ok := nt.Underlying().(*types.Struct); ok {
						for q := 0; q < st.NumFields(); q++ {
							if isPathName(core.FieldName(st, q)) {
								hasPathField = true
							}
						}
					}
				}
				if usesRecvString && !usesPath && hasPathField {
					problems = append(problems, "the error is built from fields of the validator but not from its path")
				}
			}
			n++
			if len(problems) == 0 {
				return
			}
			base := fn + ":" + g.Name()
			seq[base]++
			key := base
			if seq[base] > 1 {
				key = fmt.Sprintf("%s#%d", base, seq[base])
			}
			r.Bad(rule, key, p.Pos(c.Pos()), strings.Join(problems, "; ")+": messages name the wrong location / the wrong registry decides")
		})
	}
	r.Count("calls_checked_for_argument_roles", n)
	r.Floor("calls_checked_for_argument_roles", 300)
	if len(seq) == 0 {
		r.OK(rule, "no-role-clash", "-", fmt.Sprintf("%d calls of package functions and error constructors: no swapped same-typed arguments, no path/in clash, every registry parameter receives the caller's registry", n))
	}
}

// roleOf: the role a string plays by the name it bears in the package and in go-openapi/errors — "loc" for the
// location of the value (path, name), "in" for the place of the parameter; "" when the name says nothing.
func roleOf(n string) string {
	switch n {
	case "path", "Path", "name", "Name":
		return "loc"
	case "in", "In":
		return "in"
	}
	return ""
}

// canonRole: the name without case (the message helpers of the package name their parameters loosely — `param,
// path` for a name and a place — so that roles are not used here).
func canonRole(n string) string {
	return strings.ToLower(n)
}

// isEqualityHelper: a helper that a value-equality predicate of the package hands its two operands to (first two
// parameters of one type, result bool).
func isEqualityHelper(p *core.Prog, g *ssa.Function) bool {
	if !p.InSubject(g) || len(g.Params) < 2 || g.Signature.Results().Len() != 1 || !types.Identical(g.Params[0].Type(), g.Params[1].Type()) {
		return false
	}
	if b, ok := g.Signature.Results().At(0).Type().Underlying().(*types.Basic); !ok || b.Kind() != types.Bool {
		return false
	}
	for _, f := range p.Funcs {
		if f.Parent() != nil || !isValueEqualityPredicate(p, f) {
			continue
		}
		found := false
		core.EachInstr(f, func(i ssa.Instruction) {
			if c, ok := i.(*ssa.Call); ok && core.StaticCallee(c) == g {
				found = true
			}
		})
		if found {
			return true
		}
	}
	return false
}
