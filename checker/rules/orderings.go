package rules

import (
	"fmt"
	"go/constant"
	"go/token"
	"go/types"
	"strings"

	"golang.org/x/tools/go/ssa"

	"verifchk/core"
)

// ORDERINGS — helpers whose verdict depends on their numeric arguments only through comparisons are
// decided exactly over the finite set of orderings: the function is evaluated by constant propagation
// (the D-DYN interpreter, no code runs) on a grid of small constants covering every ordering of its
// arguments (less, equal, greater, negative, zero, positive) and both values of boolean flags, and the
// nil / non-nil outcome is compared with the mathematical definition written here.

type ordSpec struct {
	fn   string
	args []string                      // roles: "path" (ignored), "x" data, "y" bound, "b" flag
	want func(x, y int64, b bool) bool // true = an error must be returned
	kind string                        // int | uint | float
}

var ordSpecs = []ordSpec{
	{"MinItems", []string{"path", "path", "x", "y"}, func(x, y int64, _ bool) bool { return x < y }, "int"},
	{"MaxItems", []string{"path", "path", "x", "y"}, func(x, y int64, _ bool) bool { return x > y }, "int"},
	{"MaximumInt", []string{"path", "path", "x", "y", "b"}, func(x, y int64, ex bool) bool { return (!ex && x > y) || (ex && x >= y) }, "int"},
	{"MaximumUint", []string{"path", "path", "x", "y", "b"}, func(x, y int64, ex bool) bool { return (!ex && x > y) || (ex && x >= y) }, "uint"},
	{"Maximum", []string{"path", "path", "x", "y", "b"}, func(x, y int64, ex bool) bool { return (!ex && x > y) || (ex && x >= y) }, "float"},
	{"MinimumInt", []string{"path", "path", "x", "y", "b"}, func(x, y int64, ex bool) bool { return (!ex && x < y) || (ex && x <= y) }, "int"},
	{"MinimumUint", []string{"path", "path", "x", "y", "b"}, func(x, y int64, ex bool) bool { return (!ex && x < y) || (ex && x <= y) }, "uint"},
	{"Minimum", []string{"path", "path", "x", "y", "b"}, func(x, y int64, ex bool) bool { return (!ex && x < y) || (ex && x <= y) }, "float"},
	{"MultipleOfInt", []string{"path", "path", "x", "y"}, func(x, y int64, _ bool) bool { return y <= 0 || x%y != 0 }, "int"},
	{"MultipleOfUint", []string{"path", "path", "x", "y"}, func(x, y int64, _ bool) bool { return y == 0 || x%y != 0 }, "uint"},
	{"RequiredNumber", []string{"path", "path", "x"}, func(x, _ int64, _ bool) bool { return x == 0 }, "float"},
}

func numConst(k string, v int64) aval {
	if k == "float" {
		return aval{k: avConst, c: constant.MakeFloat64(float64(v))}
	}
	return cInt(v)
}

func Orderings(p *core.Prog, r *core.Report) {
	const rule = "ORDERINGS"
	na := newNilAn(p)
	grid := []int64{-2, -1, 0, 1, 2, 3, 6}
	if Deep {
		grid = []int64{-7, -6, -3, -2, -1, 0, 1, 2, 3, 4, 5, 6, 7, 12}
	}
	n := 0
	for _, sp := range ordSpecs {
		f := p.Func(sp.fn)
		if f == nil {
			r.Unk(rule, sp.fn, "-", "helper not found")
			continue
		}
		if len(f.Params) != len(sp.args) {
			r.Unk(rule, sp.fn, p.Pos(f.Pos()), "signature changed: the grid cannot be mapped onto the parameters")
			continue
		}
		di := &dynInterp{p: p, na: na, memo: map[string]aval{}, open: map[string]bool{}, issues: map[string]*dynIssue{}, atoms: map[string]map[string]bool{}, checked: map[ssa.Instruction]bool{}, dataPos: map[*ssa.Function]map[int]bool{}, reached: map[*ssa.BasicBlock]bool{}, analysed: map[*ssa.Function]bool{}, arith: true}
		var bad []string
		cases := 0
		for _, x := range grid {
			for _, y := range grid {
				for _, b := range []bool{false, true} {
					if sp.kind == "uint" && (x < 0 || y < 0) {
						continue
					}
					hasY, hasB := false, false
					args := make([]aval, len(sp.args))
					for i, role := range sp.args {
						switch role {
						case "x":
							args[i] = numConst(sp.kind, x)
						case "y":
							args[i] = numConst(sp.kind, y)
							hasY = true
						case "b":
							args[i] = cBool(b)
							hasB = true
						default:
							args[i] = top
						}
					}
					if !hasY && y != grid[0] {
						continue
					}
					if !hasB && b {
						continue
					}
					cases++
					res := di.run(f, args, 0)
					var got string
					switch {
					case res.k == avNilPtr:
						got = "nil"
					case res.k == avValid:
						got = "error"
					default:
						got = "undetermined(" + res.String() + ")"
					}
					want := "nil"
					if sp.want(x, y, b) {
						want = "error"
					}
					if got != want {
						bad = append(bad, fmt.Sprintf("(x=%d,y=%d,flag=%v): %s, expected %s", x, y, b, got, want))
					}
				}
			}
		}
		n += cases
		if len(bad) == 0 {
			r.OK(rule, sp.fn, p.Pos(f.Pos()), fmt.Sprintf("agrees with its definition on all %d orderings of the grid", cases))
		} else {
			if len(bad) > 4 {
				bad = append(bad[:4], fmt.Sprintf("… %d more", len(bad)-4))
			}
			r.Bad(rule, sp.fn, p.Pos(f.Pos()), "the helper disagrees with its definition for some orderings of its arguments: "+strings.Join(bad, "; "))
		}
	}
	r.Count("ordering_cases", n)
	r.Floor("ordering_cases", 400)
	_ = token.ADD
	_ = types.Typ
}

// OrderingsTyped — C13's statement decided on a finite grid: for every Go numeric carrier type, every
// value of a small grid and every constraint of a grid that includes fractional, negative and zero
// constraints, the *NativeType facades (evaluated by constant propagation through reflect.ValueOf /
// Kind switches / as* helpers / guards / the Int, Uint and float comparators) return an error exactly when
// exact arithmetic on the mathematical values says so. Arithmetic is folded on exact rationals: float
// rounding is not modelled.
func OrderingsTyped(p *core.Prog, r *core.Report) {
	const rule = "ORDERINGS"
	na := newNilAn(p)
	carriers := []atom{aInt, aInt8, aInt16, aInt32, aInt64, aUint, aUint8, aUint16, aUint32, aUint64, aFloat32, aFloat64}
	values := []int64{-3, -1, 0, 1, 3, 4}
	lo, hi := int64(-7), int64(9)
	if Deep {
		values = []int64{-8, -5, -4, -3, -2, -1, 0, 1, 2, 3, 4, 5, 8, 9}
		lo, hi = -19, 21
	}
	// constraints in halves: -3.5 … 4.5
	var constraints []constant.Value
	for h := lo; h <= hi; h++ {
		constraints = append(constraints, constant.BinaryOp(constant.MakeInt64(h), token.QUO, constant.MakeInt64(2)))
	}
	rat := func(v int64) constant.Value { return constant.ToFloat(constant.MakeInt64(v)) }
	type facade struct {
		fn   string
		excl bool
		want func(x, c constant.Value, ex bool) (bool, bool) // (error expected, defined)
	}
	cmp := func(a constant.Value, op token.Token, b constant.Value) bool { return constant.Compare(a, op, b) }
	isMultiple := func(x, c constant.Value) (bool, bool) {
		if constant.Sign(c) <= 0 {
			return true, true // factor must be positive: always an error
		}
		q := constant.BinaryOp(x, token.QUO, c)
		f, _ := constant.Float64Val(q)
		return f != float64(int64(f)), true
	}
	facades := []facade{
		{"MaximumNativeType", true, func(x, c constant.Value, ex bool) (bool, bool) {
			return (!ex && cmp(x, token.GTR, c)) || (ex && cmp(x, token.GEQ, c)), true
		}},
		{"MinimumNativeType", true, func(x, c constant.Value, ex bool) (bool, bool) {
			return (!ex && cmp(x, token.LSS, c)) || (ex && cmp(x, token.LEQ, c)), true
		}},
		{"MultipleOfNativeType", false, func(x, c constant.Value, _ bool) (bool, bool) { return isMultiple(x, c) }},
	}
	total := 0
	for _, fc := range facades {
		f := p.Func(fc.fn)
		if f == nil {
			r.Unk(rule, fc.fn, "-", "facade not found")
			continue
		}
		di := &dynInterp{p: p, na: na, memo: map[string]aval{}, open: map[string]bool{}, issues: map[string]*dynIssue{}, atoms: map[string]map[string]bool{}, checked: map[ssa.Instruction]bool{}, dataPos: map[*ssa.Function]map[int]bool{}, reached: map[*ssa.BasicBlock]bool{}, analysed: map[*ssa.Function]bool{}, arith: true}
		var bad []string
		for _, ca := range carriers {
			unsigned := ca >= aUint && ca <= aUint64
			for _, x := range values {
				if unsigned && x < 0 {
					continue
				}
				for _, c := range constraints {
					for _, ex := range []bool{false, true} {
						if !fc.excl && ex {
							continue
						}
						var xv constant.Value = constant.MakeInt64(x)
						if ca == aFloat32 || ca == aFloat64 {
							xv = rat(x)
						}
						args := []aval{top, top, {k: avDyn, a: ca, c: xv}, {k: avConst, c: c}}
						if fc.excl {
							args = append(args, cBool(ex))
						}
						if len(args) != len(f.Params) {
							r.Unk(rule, fc.fn, p.Pos(f.Pos()), "signature changed")
							return
						}
						total++
						res := di.run(f, args, 0)
						want, _ := fc.want(rat(x), c, ex)
						got := "undetermined(" + res.String() + ")"
						if res.k == avNilPtr {
							got = "nil"
						} else if res.k == avValid {
							got = "error"
						}
						ws := "nil"
						if want {
							ws = "error"
						}
						if got != ws {
							bad = append(bad, fmt.Sprintf("%s(%s(%d), %s, exclusive=%v) = %s, exact arithmetic says %s", fc.fn, ca, x, c.String(), ex, got, ws))
						}
					}
				}
			}
		}
		if len(bad) == 0 {
			r.OK(rule, fc.fn+":all-carriers", p.Pos(f.Pos()), "verdict equals exact arithmetic for every carrier type, value and (also fractional / negative) constraint of the grid")
		} else {
			n := len(bad)
			if n > 5 {
				bad = append(bad[:5], fmt.Sprintf("… %d more", n-5))
			}
			r.Bad(rule, fc.fn+":all-carriers", p.Pos(f.Pos()), fmt.Sprintf("%d grid points where the verdict depends on the Go type carrying the number: %s", n, strings.Join(bad, "; ")))
		}
	}
	r.Count("typed_ordering_cases", total)
	r.Floor("typed_ordering_cases", 2000)
}
