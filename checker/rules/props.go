package rules

func init() {
	Properties["C05"] = PropSpec{
		Rules:       []Rule{Globals},
		Explanation: "Static analysis of the SSA form of /repo: every package-level variable is classified (sync object, initialised-only, guarded by a lock) and for guarded ones every run-time access is checked to hold the guarding mutex (must-held lockset dataflow with call-site propagated entry sets).",
		NotDecided:  "The Go memory model, races inside dependencies, caller-supplied registries, equality of concurrent and sequential outcomes beyond independence of shared state.",
		Assumptions: []string{"lock held at both accesses implies no data race (Go memory model)", "dependencies are trusted"},
	}
	Properties["C15"] = PropSpec{
		Rules:       []Rule{Cow},
		Explanation: "Static analysis of the whole pattern-cache mechanism on SSA: published snapshots are never written (no MapUpdate/delete on a value derived from the cache load, anywhere in the package); publication happens only in one function, with the mutex in the must-held lockset, after re-loading the snapshot inside the critical section, into a freshly made map that receives every old entry and new entries keyed by String() of the inserted expression; lookups use the requested pattern as key; the miss path compiles exactly the pattern parameter, returns/caches that very value, and returns the compile error unchanged with nothing cached; regexp.Compile/MustCompile/Match* occur nowhere else; the Must variant is only called with constants that the checker itself parses; every call site uses the expression only where the error is known nil.",
		NotDecided:  "The regexp package itself (matching semantics), and sync/atomic.",
		Assumptions: []string{"regexp.Regexp.String() returns the source text used to compile (regexp documentation)", "sync.Mutex and atomic.Value are correct"},
	}
	Properties["C04"] = PropSpec{
		Rules:          []Rule{PoolCtor, PoolAPI, ResLinear, Slots},
		DebugConfigToo: true,
		Explanation:    "(being extended) POOL-CTOR: every field of a borrowed validator is assigned on every path before the object is returned, no field is read (directly or through a method of the half-built object) before it is assigned; a recycled Result is reset field by field by the clearing function the borrow applies; scratch schemas are overwritten as a whole before any use.",
		NotDecided:     "Agreement of outcomes with a fresh process (behavioural); aliasing carried through dependencies.",
		Assumptions:    []string{"a recycling validator is used once (documented contract)"},
	}
}
