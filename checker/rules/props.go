package rules

func init() {
	Properties["C05"] = PropSpec{
		Rules:       []Rule{Globals},
		Explanation: "Static analysis of the SSA form of /repo: every package-level variable is classified (sync object, initialised-only, guarded by a lock) and for guarded ones every run-time access is checked to hold the guarding mutex (must-held lockset dataflow with call-site propagated entry sets).",
		NotDecided:  "The Go memory model, races inside dependencies, caller-supplied registries, equality of concurrent and sequential outcomes beyond independence of shared state.",
		Assumptions: []string{"lock held at both accesses implies no data race (Go memory model)", "dependencies are trusted"},
	}
}
