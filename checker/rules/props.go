package rules

import (
	"golang.org/x/tools/go/ssa"
	"reflect"
	"strings"

	"verifchk/core"
)

// Property -> rules. Explanations state the clause decided and what is not decided.

const trustDeps = "dependencies (spec, analysis, swag, strfmt, errors, loads, reflect, regexp) are type-checked but not analysed: summarised by small tables written from reading the pinned versions"

func init() {
	Properties["C04"] = PropSpec{
		Rules:          []Rule{OptionsKept, PoolCtor, PoolAPI, ResLinear, RedeemGuard, Slots},
		DebugConfigToo: true,
		Explanation:    "Decides the complete structural argument the code relies on for recycling safety, on every path and call order: POOL-CTOR/POOL-CLEARED (a borrowed validator has every field assigned before it is returned and no field is read before assignment, directly or via methods of the half-built object; a recycled Result is reset leaf field by leaf field; scratch schemas are overwritten as a whole before any use); POOL-API (sync.Pool only inside Borrow*/Redeem*, Redeem<T> only from (*T).redeem, redeem() only from the deferred closure of the type's own Validate or on a child held in a slot, resetPools only at init, emptyResult refused by RedeemResult); EMPTY-IMMUTABLE (no mutating use of a value that may be the shared empty result); RES-LINEAR (forward may-dataflow per function with derived consuming positions: no use, return or second release of a pooled result after the call that released it, deferred releases take effect at RunDefers); SLOT-PRECLEAR/POSTCLEAR/INIT/SELFREDEEM/ONESHOT (typestate of child validators in slots: emptied under the recycle option before the child runs, emptied after a release, filled only in the parent's constructor from distinct constructor calls, self-release deferred once under the guard, fresh validators run once); DEFER-INIT. EMPTY-ESCAPE: no exported entry point can hand the shared empty result to a caller (one did, through a nil validator: fixed). REDEEM-GUARD API mode (an exported Validate takes its result from the pool only on the true side of the result-recycling option); POOL-CLEARED zero (every leaf field of a recycled Result is reset to its zero value, the pooled mark excepted).",
		NotDecided:     "That outcomes equal those of a fresh process (behavioural); aliasing carried through dependencies; leaks (not violations).",
		Assumptions:    []string{"a recycling validator is used once (documented contract)", trustDeps},
	}
	Properties["C05"] = PropSpec{
		Rules:          []Rule{VariadicAppend, Globals, SharedReach, Cow, PoolAPI, ResLinear, Slots, Stateless},
		DebugConfigToo: true,
		Explanation:    "Decides the structural conditions race-freedom and independence rest on, for every function and path: GLOBALS (every package-level variable classified: sync object / never written after init / guarded) + LOCKSET (every run-time access of a guarded global holds the mutex common to its writers; must-held locksets with call-site propagated entry sets); COW (published regexp-cache snapshots are never written, publication under the mutex after an in-section reload, into a fresh map); exclusive ownership of pooled objects (RES-LINEAR: nothing is read after its release, nothing released twice; SLOT-*: no child reachable from two owners; POOL-API, EMPTY-IMMUTABLE: the shared empty result is never written); STATELESS (a validator built without recycling is only read while validating, so it can be shared).",
		NotDecided:     "The Go memory model itself; races inside dependencies (spec expander, analysis); caller-supplied registries; equality of concurrent and solitary outcomes beyond independence of shared state.",
		Assumptions:    []string{"lock held at both accesses implies no data race", "sync.Pool hands an object to one borrower at a time", trustDeps},
	}
	Properties["C08"] = PropSpec{
		Rules:       []Rule{OptionsKept, Setter, Stateless, Slots, PoolAPI, ResLinear, OptionsRoundTrip, MapOrder("(*SchemaValidator).Validate", "(*ParamValidator).Validate", "(*HeaderValidator).Validate")},
		Explanation: "STATELESS effect analysis over every function: each store into a field (or element of an array/slice/map held in a field) of the 13 validator types outside their constructors, and each call of a receiver-mutating method (summaries computed, interface dispatch resolved by method name over the implementations), is (i) guarded by the recycle option (directly or because the enclosing function is recycle-only, greatest fixpoint over call sites), (ii) applied to an object constructed in the same activation, or (iii) applied to an ephemeral type whose every instance is created, run once and dropped. SLOT-INIT: children are built only in the parent's constructor from distinct constructor calls; SLOT-ONESHOT: per-element validators are fresh. OPTIONS-ROUNDTRIP: every option returned by SchemaValidatorOptions.Options() restores exactly the field it was read from and every field is replayed, so a validator configured from another one's options is not silently switched to the one-shot recycling mode. EMPTY-ESCAPE as for C04. SETTER.",
		NotDecided:  "Determinism of dependencies; lazy spec.ExpandSchema on sub-schemas that still contain $ref; equality of message sets across repetitions (behavioural). Confirmed by probing: a validator reused on items: {$ref: '#'} or on a pointer through a lazily expanded location changes its verdict between calls.",
		Assumptions: []string{"validator state = fields of the validator types; caller-supplied registries are outside", trustDeps},
	}
	Properties["C11"] = PropSpec{
		Rules:          []Rule{Slots, PoolAPI, PoolCtor},
		DebugConfigToo: true,
		Explanation:    "Decides, for every unwind point at once, that a panic cannot leave an object twice in a pool: SLOT-PRECLEAR (on every recycle path the slot is emptied between loading a child and running it, so the parent's deferred redeemChildren never sees a child that released itself); SLOT-SELFREDEEM (each Validate registers exactly one deferred self-release, children first, under the recycle guard, with only non-panicking calls before the registration); SLOT-POSTCLEAR for released children; DEFER-INIT (a deferred release is registered only after the released variable is assigned, so a panic cannot put a nil in a pool); scratch schemas are released by a deferred closure of the borrowing function. Results borrowed before a panic are merely leaked.",
		NotDecided:     "State kept inside the caller's format checker or inside dependencies; outcome equality of later validations (follows from pool integrity, which is what is decided).",
		Assumptions:    []string{"panics originate in callees of Validate (format checkers, documented invalid-schema panic)", trustDeps},
	}
	Properties["C15"] = PropSpec{
		Rules:       []Rule{CowReporting, PatternSearch},
		Explanation: "Static analysis of the whole pattern-cache mechanism on SSA: published snapshots are never written (no MapUpdate/delete on a value derived from the cache load, anywhere in the package); publication happens only in one function, with the mutex in the must-held lockset, after re-loading the snapshot inside the critical section, into a freshly made map that receives every old entry and new entries keyed by String() of the inserted expression; lookups use the requested pattern as key; the miss path compiles exactly the pattern parameter, returns/caches that very value, and returns the compile error unchanged with nothing cached; regexp.Compile/MustCompile/Match* occur nowhere else; the Must variant is only called with constants that the checker itself parses; every call site uses the expression only where the error is known nil. PURE (Pattern clause): Pattern decides by MatchString(data) of the expression compiled from that very pattern and nothing else. invalid-reported: at every call site of the compile function the error edge reports (the two patternProperties sites of the object validator skip silently: known findings).",
		NotDecided:  "The regexp package itself (matching semantics), and sync/atomic.",
		Assumptions: []string{"regexp.Regexp.String() returns the source text used to compile (regexp documentation)", "sync.Mutex and atomic.Value are correct"},
	}
}

func init() {
	c07Entries := []string{"Spec", "NewSpecValidator", "(*SpecValidator).Validate"}
	Properties["C07"] = PropSpec{
		Rules: []Rule{DeadTailIn("spec.go", "helpers.go", "default_validator.go", "example_validator.go"), ErrValue, 
			FieldFed,
			PanicBoundary, CtorRecursion, RefWalk,
			PanicInventory(c07Entries, []DynEntry{
				{Func: "(*SchemaValidator).Validate", DataArg: 1},
				{Func: "(*ParamValidator).Validate", DataArg: 1},
				{Func: "(*HeaderValidator).Validate", DataArg: 1},
				{Func: "(*itemsValidator).Validate", DataArg: 2},
			}, jsonDomain, "JSON value domain (raw document, defaults and examples are decoded JSON)"),
			NilRule(func(p *core.Prog) []*ssa.Parameter {
				var out []*ssa.Parameter
				for _, n := range []string{"Spec", "NewSpecValidator"} {
					if f := p.Func(n); f != nil {
						for _, prm := range f.Params {
							if strings.HasSuffix(prm.Type().String(), "strfmt.Registry") {
								out = append(out, prm)
							}
						}
					}
				}
				return out
			}), Bounds(nil), Cow, ExpandFirst, Slots,
		},
		Explanation: "EXPAND-FIRST: the documented invalid-schema panic of newSchemaValidator is unreachable from spec validation only if every schema handed to it there is the Swagger meta-schema, a successfully expanded response schema, or dominated by a successful ExpandSchema (two sites violate this: known finding). The same panic-freedom analyses as C06, from the entry points Spec / NewSpecValidator / (*SpecValidator).Validate: NIL over all functions (nil results of the visited-path heuristic, nil sections after failed expansion, nillable pointer fields of spec structs tested on the same access path, paired (value, error|ok|invalid-result) returns, interprocedural parameter nil-ness, the 'ensure map entry' idiom), PANIC-INVENTORY (reviewed explicit panics, divisions, unchecked assertions and kind-specific reflect calls legal for every dynamic type of decoded JSON reaching them, through the schema, parameter, header and items validators that judge defaults and examples), D-BOUND on every index/slice expression, constant Must-patterns parsed at analysis time. FIELD-FED as for C06; the error-pairing of helpers used by NIL is computed (every return dominated by AddErrors on the result parameter or reachable only with err == nil). ERR-VALUE.",
		NotDecided:  "Termination; panics inside dependencies (loader, analysis, spec expander); document shapes the loader itself rejects.",
		Assumptions: []string{"the document loads (loads.Document non-nil, Spec() non-nil)", "decoded values belong to the JSON value domain", "elements of containers built by the dependencies are non-nil", "pure accessors return the same object when called twice", trustDeps},
	}
}

func init() {
	c06Entries := []string{"AgainstSchema", "NewSchemaValidator", "(*SchemaValidator).Validate"}
	Properties["C06"] = PropSpec{
		Rules: []Rule{DeadTailIn("values.go", "validator.go", "schema.go", "schema_props.go", "object_validator.go", "slice_validator.go", "type.go", "formats.go", "result.go"), ErrValue, 
			FieldFed,
			ExpandRoot, CtorRecursion,
			PanicInventory(c06Entries, []DynEntry{{Func: "(*SchemaValidator).Validate", DataArg: 1}}, jsonDomain, "JSON value domain: nil, bool, float64, string, json.Number, []interface{}, map[string]interface{}, int64"),
			NilRule(func(p *core.Prog) []*ssa.Parameter {
				// caller-supplied values that may be nil: the instance, and the format registry (the code
				// documents "no registry" as nil); identified by type, not by parameter name
				var out []*ssa.Parameter
				for _, n := range []string{"(*SchemaValidator).Validate", "AgainstSchema", "NewSchemaValidator"} {
					if f := p.Func(n); f != nil {
						for _, prm := range f.Params {
							ts := prm.Type().String()
							if ts == "interface{}" || ts == "any" || strings.HasSuffix(ts, "strfmt.Registry") {
								out = append(out, prm)
							}
						}
					}
				}
				return out
			}),
			Bounds(nil), Cow, Slots,
		},
		Explanation: "PANIC-INVENTORY over the functions reachable from AgainstSchema / NewSchemaValidator / (*SchemaValidator).Validate (CHA-style call graph restricted to the package): every explicit panic is in the reviewed table (D-DOC), every integer division has a divisor excluded from zero by a dominating test (D-DIV), every unchecked type assertion and kind-specific reflect.Value call is legal for every dynamic type of the JSON value domain that can reach it — decided by conditional constant propagation over the dynamic type of the datum (D-DYN, one abstract run per type, Applies() evaluated per kind so that a validator is analysed exactly for the kinds it is dispatched on), pool-layer assertions match the pool's element type (D-POOLTYPE); NIL: every dereference of a possibly-nil value (nil-returning functions with iff-parameter and paired-error refinements, nillable spec fields, map lookups, failed comma-ok forms, interprocedural parameter nil-ness) is dominated by a nil test of the same value or access path; D-BOUND: every index/slice expression is within bounds by a linear argument from dominating conditions and monotone loop variables; constant patterns given to the panicking regexp compile are parsed at analysis time (COW). FIELD-FED: every field that is read is given a non-zero value somewhere (a constructor forgetting Root makes resolvable $refs in schema-valued dependencies panic). CTOR-RECURSION: a cycle of datum-free constructors that resolves references on the way is unbounded for $ref cycles through composition keywords (known finding: fatal stack overflow). EXPAND-ROOT aliases-target: the root of an in-place expansion is not the object expanded (it was: fixed). ERR-VALUE.",
		NotDecided:  "Termination and stack depth (self-referential $ref, regexp run time); panics inside dependencies or caller-supplied format checkers; values outside the JSON value domain (named Go types, pointers, structs).",
		Assumptions: []string{"dynamic values belong to the JSON value domain (stated by C06) incl. json.Number and the int64/float64 produced by its conversion", "elements of containers other than dynamic JSON values are non-nil", "pure accessors (Spec(), expandedAnalyzer()) return the same object when called twice", trustDeps},
	}
}

func init() {
	Properties["C20"] = PropSpec{
		Rules:       []Rule{DeadTailIn("result.go"), ResultAlgebra, ResLinear, PoolAPI, SchemataModel},
		Explanation: "RESULT-ALGEBRA, structural laws checked on SSA rather than by running sequences: each of Merge/MergeAsErrors/MergeAsWarnings/mergeForField/mergeForSlice tests its operand against nil, visits all operands (no return before the loop is exhausted), and applies exactly once per non-nil operand, on every path, the documented matrix of effects (which of AddErrors/AddWarnings receives the operand's Errors and Warnings, MatchCount += operand.MatchCount, resetCaches, redeem under wantsRedeemOnMerge) and no other; AddErrors/AddWarnings only write append(<own list>, e), only on the e != nil edge, guarded by a condition that depends on comparing e.Error() with the Error() of the elements of the same list and that is recomputed per message (backward slice does not cross the outer loop header); IsValid is len(Errors)==0, queries dereference the receiver only when non-nil, Inc adds one; RES-ALIAS: no slice header of Errors/Warnings escapes or enters a Result (only elements are copied), which is what makes later changes to an operand invisible in the merged result; RES-LINEAR: operands are not used after their release. dedupe-every-element: the duplicate search compares the text of every element it visits. Nil-safe queries: every exported niladic method of *Result tolerates a nil receiver (four did not: fixed). SCHEMATA-MODEL (the schemata containers cloned on merge: a clone shares no schema object and no backing array with its original).",
		NotDecided:  "Equivalence with an ordered-set model over arbitrary operation sequences (nothing is executed): the laws above are the structural facts that equivalence rests on. Judgement call found by probing, not decided: a typed-nil error is appended.",
		Assumptions: []string{"errors.CompositeValidationError copies its arguments (read from errors@v0.22.1)", trustDeps},
	}
}

func init() {
	Properties["C03"] = PropSpec{
		Rules:       []Rule{Setter, DeadTailIn("spec.go", "helpers.go", "options.go"), RuleSeq, NoDrop, RunState, SpecPred, GuardScope, ArgRole, DefaultsFieldwise, RawAnalyzer, ExpandRoot},
		Explanation: "GUARD-SCOPE: every option (StrictPathParamUniqueness, the two swagger strictness switches, skip-schemata) and every path-name exemption predicate of the object validator controls only the effects in its reviewed scope — a rule message or pre-check that becomes control dependent on another option or exemption is reported; SPEC-PRED: for 18 documented rules whose predicate is a conjunction of simple comparisons (path-parameter required/unique/in-path, body-xor-formData, one body parameter, required-property-defined, items present for arrays, duplicate operation ids / parameter names, default response …) the rule's message is control dependent on exactly those comparisons with the right operands and polarity — operands are named structurally (parameter position, declaring type of a field, the conditions under which a flag is set), never by local name — and the path-parameter helpers find placeholders with the placeholder expression in every '/'-segment. RULE-SEQ: every documented rule function is called by (*SpecValidator).Validate and its result is the operand of errs.Merge; every return other than the last is guarded by !Options.ContinueOnErrors && errs.HasErrors(), and the last is dominated by all rule calls. NO-DROP: every *Result produced in spec.go/default_validator.go/example_validator.go/helpers.go is merged, returned, or returned to the pool only where HasErrorsOrWarnings() is false. DEFAULTS-FIELDWISE: the process-wide default options are only changed field by field outside init. RAW-ANALYZER: the analyzer of the document as written is used only to enumerate references, as fallback when no expanded document exists, or at reviewed sites. EXPAND-ROOT: resolution requests are given the validator's document. GUARD-SCOPE exact (the three path-name exemption predicates decided on every run of the router); DEAD-TAIL; SETTER (no setter drops its argument).",
		NotDecided:  "The predicate inside each rule (value-level). Value-level defects of individual rule functions found by probing and not decided here (DESIGN section 6, findings/hunt/C03): circular-ancestry bookkeeping (diamonds, self-cycles), required vs additionalProperties/allOf, duplicate path-item parameters, ToGoName collisions, literal X overlapping a placeholder.",
		Assumptions: []string{trustDeps},
	}
}

func init() {
	Properties["C10"] = PropSpec{
		Rules:       []Rule{DeadTailIn("spec.go", "helpers.go", "result.go", "options.go"), Setter, MapOrder("(*SpecValidator).Validate"), RuleSeq, ModeUse, WarnNeutral, RunState, ResultAlgebra, PoolCtor, DefaultsFieldwise, InputRO},
		Explanation: "MAP-ORDER: in every function reachable from (*SpecValidator).Validate, a range over a map is left before exhaustion only by pure search loops, and a list filled in map order is sorted before it is rendered into a message (taint propagated through appends, callees' return values and ranges over tainted lists); RULE-SEQ: early returns only under !Options.ContinueOnErrors && errs.HasErrors(), the final return after all rules (so the stop-early run executes a prefix of the same rule sequence: its errors are a subset), warnings bookkeeping deferred before the first rule, options copied per validator and the process-wide default never consulted during validation; WARN-NEUTRAL: no error is added under a test of the warnings of a sub-result that can carry warnings (warnings alone never invalidate); MODE-USE: every read of ContinueOnErrors is consumed by a branch condition of Validate and flows nowhere else (not into a rule, not into the options of a dependency such as the reference expander), so the mode decides when the run stops and never what a rule reports; RUN-STATE: per-run fields of a reused validator are re-initialised; RESULT-ALGEBRA: messages form a text-keyed set (order-insensitive accumulation); POOL-CTOR: spec validation always recycles validators, so a constructor that leaves a field of a borrowed object unassigned on some path makes the outcome depend on what the pool handed out (previous validations, map order, GC). DEFAULTS-FIELDWISE: a package-level setter cannot reset the other defaults (the verdict would depend on the history of setter calls). carried-state: inside a range over a map no message depends on a container the same loop fills as it goes (path overlaps did: fixed by visiting paths in sorted order). SETTER (SetContinueOnErrors stores what it is given).",
		NotDecided:  "Determinism of the dependencies (analysis, loader); serialisation variants of one document; which member of a cycle a circular-ancestry message names. Found by probing, not decided: the unresolved reference quoted as 'first found' (dependency walk order); the parsed document rewritten by safeExpandedParamsFor when references do not resolve under continue-on-errors.",
		Assumptions: []string{trustDeps},
	}
}

func init() {
	Properties["C02"] = PropSpec{
		OutOfDomain: map[string]string{
			"ENUM-CONVERT:basicCommonValidator:lossy-conversion": "documents are decoded JSON/YAML: instance and enum members are float64/string/bool, between which no value-changing conversion exists",
			"PURE:EnumCase:lossy-conversion":                     "same: decoded JSON values only",
			"PURE:UniqueItems:numeric-equality":                  "same: every number of a decoded document is a float64",
			"TYPE-TABLE:typeValidator:integrality-tolerance":     "every integer-typed member of a Swagger document is an *int64 of the typed model: a document with a fractional value there does not load",
		},
		Rules:       []Rule{DeadTailIn("values.go", "validator.go", "schema.go", "schema_props.go", "object_validator.go", "slice_validator.go", "type.go", "formats.go", "result.go", "spec.go"), OptionsKept, KeyExemption, NilPath, MustPass, RuleSeq, ResultAlgebra, Keywords("SchemaValidator", schemaKeywords, "schema_ctor_calls"), Counting, Orderings, Pure, ArgRole, TypeTable, ObjectRouting, SliceRouting, KeywordRouting, KeywordPred, KeywordGuard, EnumConvert, KConsistent, GuardScope},
		Explanation: "SCHEMA-PASS clauses shared with C01, because the first pass is the schema validator run on the Swagger schema (anchors object_validator.go, schema_props.go): KEYWORDS — every keyword the Swagger schema uses (type, enum, pattern, min/max*, required, properties, patternProperties for x- extensions, additionalProperties:false, allOf/anyOf/oneOf/not, items, uniqueItems, format) reaches a sub-validator field that is read while validating; MEMBER-GUARD / K-CONSISTENT — every member of every object and array of the document is validated against its schema whatever its name or value (an exemption for a name such as 'id' silently accepts an invalid entry of definitions/properties/headers); KEYWORD-GUARD — no constraint helper is conditioned on the instance; COUNTING — oneOf over the parameter kinds is decided exactly (none / exactly one / several valid); ROUTING — in every configuration of properties / patternProperties / additionalProperties a member is handed to the pattern matcher and, when undeclared and unmatched, to the additionalProperties schema; ENUM-CONVERT. MUST-PASS: in (*SpecValidator).Validate the validation of json.Unmarshal(doc.Raw()) against the validator's Swagger schema, built with the validator's schemaOptions, dominates every other rule and every verdict-returning exit; NewSpecValidator applies SwaggerSchema(true) (both strictness flags) to those options; the result is merged with Merge into the error accumulator (RULE-SEQ) whose errors only grow (RESULT-ALGEBRA / RES-ALIAS: append-only writes); Spec() returns nil exactly on !errs.HasErrors(); each expanded parameter is re-validated against #/definitions/parameter and merged. KEY-EXEMPTION: the forbidden-property error is not control dependent on member names (\"id\" and \"$schema\" are exempt: known finding, the embedded fixture relies on it). NILPATH as for C01 (known finding with Swagger inputs).",
		NotDecided:  "That the schema pass itself is right for the 1600-line Swagger schema: that is C01 (draft-4 agreement), which is value-level.",
		Assumptions: []string{trustDeps},
	}
}

func init() {
	Properties["C13"] = PropSpec{
		Rules:       []Rule{DeadTailIn("values.go", "validator.go", "type.go"), MultipleTable, DatumFree, Narrow, Orderings, OrderingsTyped, KeywordPred, Keywords("SchemaValidator", schemaKeywords, "schema_ctor_calls"), Keywords("ParamValidator", simpleKeywords, "param_ctor_calls"), Keywords("HeaderValidator", simpleKeywords, "header_ctor_calls"), Keywords("itemsValidator", simpleKeywords, "items_ctor_calls"), KeywordPosition, HelperField},
		Explanation: "ORDERINGS: MaximumNativeType/MinimumNativeType/MultipleOfNativeType are evaluated by constant propagation (through reflect.ValueOf, the kind switches, the as* helpers, the exactness guards and the Int/Uint/float comparators) for every Go numeric carrier type × a grid of values × a grid of constraints in halves from -3.5 to 4.5 × exclusive on/off, and must return an error exactly when exact arithmetic says so (arithmetic folded on exact rationals: float rounding is not modelled); the Int/Uint/float comparators and Min/MaxItems, MultipleOfInt/Uint, RequiredNumber agree with their definitions on every ordering of a small grid. NARROW: every numeric ssa.Convert of the package is classified; one that can change the mathematical value (float→integer, signed↔unsigned, narrowing) must be dominated by an integrality test plus a range test of its operand (possibly packaged in a one-parameter predicate of the package, whose true-returning paths are inspected), or be unreachable for every Go numeric carrier type (abstract D-DYN runs from MaximumNativeType/MinimumNativeType/MultipleOfNativeType/IsValueValidAgainstRange/numberValidator.Validate over float32/64, int*, uint*: the as* helpers only take their value-preserving branch). The kind-specific reflect getters are legal for the kinds that reach them (D-DYN). json.Number: Int64() is selected exactly on Type.Contains(integer), Float64() on its negation, and both error edges add an error. NATIVE-DISPATCH: each typed facade, evaluated per Go numeric carrier kind, reaches the comparator of its own exact arithmetic. DATUM-FREE-ERROR and EXACT-ARITH as for C16 (known findings with failing inputs). MULTIPLE-TABLE.",
		NotDecided:  "Exactness of the float arithmetic itself (MultipleOf's division and IsFloat64AJSONInteger tolerance), values beyond ±2^53, decimal fractions. Found by probing, not decided: json.Number through the parameter/header validators and the *NativeType helpers.",
		Assumptions: []string{"numbers within ±2^53 (C13), so integer→float64 is exact", "int is 64 bits wide", trustDeps},
	}
}

func init() {
	Properties["C12"] = PropSpec{
		Rules:       []Rule{VariadicAppend, InputRO},
		Explanation: "INPUT-RO: whole-package taint propagation on SSA. Sources are the schema / data / parameter / header / document parameters of the exported entry points and (*loads.Document).Spec(); a value is T1 when it points into caller-owned memory and T2 when it is the address of a local shallow copy (pointers, maps and slices loaded out of a T2 copy are T1 again). Every store through a pointer, map update, delete, append, copy and external mutator call (ExpandSchema, ExpandParameter*, ExpandResponse*, sort.*, json.Unmarshal, gob Decode) on spec.* / dynamic-JSON typed memory in package validate must have a target that is not T1. Two reviewed exceptions are checked structurally: the lazy ExpandSchema of a caller's schema under the test of its ID/$ref, and the parameter list rewritten on the operation returned by expandedAnalyzer(), which must still prefer the private expanded copy.",
		NotDecided:  "Mutation performed inside dependencies on objects handed to them and not listed in the mutator table; package post (mutates the data by contract).",
		Assumptions: []string{"(*loads.Document).Expanded and swag.ToDynamicJSON return memory not shared with their argument", trustDeps},
	}
}

func init() {
	helperEntries := []DynEntry{}
	for _, h := range []struct {
		fn  string
		arg int
	}{{"UniqueItems", 2}, {"Enum", 2}, {"EnumCase", 2}, {"Required", 2}, {"ReadOnly", 3}} {
		helperEntries = append(helperEntries, DynEntry{Func: h.fn, DataArg: h.arg})
	}
	anyDomain := append(append([]atom{}, goTypedDomain...), aSliceIface, aMapIface, other(reflect.Struct), other(reflect.Ptr), other(reflect.Map), other(reflect.Bool), other(reflect.Func), other(reflect.Interface))
	Properties["C14"] = PropSpec{
		Rules: []Rule{DeadTailIn("values.go"), ErrValue, EqualTable, DataWalk, Pure, Orderings, Cow,
			PanicInventory(valueHelpers, helperEntries, anyDomain, "any Go value: nil, every basic kind, named strings, slices, maps, structs, pointers", "no-applies", "helpers"),
			NilRule(func(p *core.Prog) []*ssa.Parameter {
				var out []*ssa.Parameter
				for _, h := range valueHelpers {
					if f := p.Func(h); f != nil {
						for _, prm := range f.Params {
							if isNillable(prm.Type()) && prm.Name() != "ctx" {
								out = append(out, prm)
							}
						}
					}
				}
				return out
			})},
		Explanation: "PURE: (purity) no function reachable from the 13 exported helpers stores outside locals or updates a foreign map, and none reads package state other than the regexp cache; (provenance clauses, each a dependence identity on SSA) Min/MaxLength compare utf8.RuneCountInString(data) with the limit in the right direction; Min/MaxItems compare the two parameters; RequiredString/Number test data against the zero constant; Pattern reports the compile error and otherwise decides by MatchString(data) of the expression compiled from pattern; FormatOf rejects unknown names then follows Validates(format, data), nil registry → strfmt.Default; Enum = EnumCase(...,true); EnumCase compares data with each member by DeepEqual and converts data to the type of the very member compared; UniqueItems uses DeepEqual between elements; Required/ReadOnly decide by DeepEqual(Zero(TypeOf(data)), data); ReadOnly only reports in a request context; withOperation always returns WithValue(ctx,key,operation). Plus panic-freedom of the helpers for any Go value (D-DYN over all kinds incl. typed and untyped nil) and the COW rules for Pattern. Enum: a nil member matches nil (fixed); string-kinded values compared by content (fixed); a reflect conversion that decides an equality must be guarded by more than ConvertibleTo, and UniqueItems needs a numerically aware equality — both violated on the current tree and listed as known findings with failing inputs and a repair sketch. EQUAL-TABLE scalars (the predicate and its element-level helper on null / booleans / strings / numbers); PURE equality polarity (no comparison inside an equality predicate decides in the wrong direction); DATA-WALK answer (a pair met again is equal); D-DYN MapIndex key types; ERR-VALUE.",
		NotDecided:  "reflect.DeepEqual / numeric-equality semantics themselves, the exact set of types for which conversion succeeds, invalid UTF-8 handling inside package unicode/utf8.",
		Assumptions: []string{trustDeps},
	}
}

func init() {
	Properties["C17"] = PropSpec{
		Rules:       []Rule{DeadTailIn("result.go", "schema.go", "schema_props.go", "object_validator.go", "slice_validator.go"), KConsistent, SameDatumPath, OneShot, ResultAlgebra, ResLinear, ArgRole},
		Explanation: "K-CONSISTENT — at each of the 7 member-validation sites of the object and slice validators the value that extends the parent's path, the value that selects the member's data and the key under which the child's result is merged are the same SSA value, the parent path is the receiver's Path, and the child validator is constructed with that path (SetPath after construction only re-paths the outer validator; the single-schema `items` site, whose location accuracy C17 does not claim, is the one reviewed exception); the error for a missing required member is named <path>.<k> for the k that was not found; MEMBER-GUARD; ONESHOT-EQ — AgainstSchema returns nil exactly on !res.HasErrors() and otherwise CompositeValidationError(res.Errors...) of the same result; RESULT-ALGEBRA — validity is len(Errors)==0 (an invalid verdict carries at least one error), messages are de-duplicated by text, append-only; RES-ALIAS — the composite copies the errors. RES-LINEAR: the result that will be reported is not released; the superseded one is. SAME-DATUM-PATH: a sub-validator judging the same datum as its parent is built with the parent's path (the schema of a dependency was not: fixed). ARG-ROLE by role: location (path/name) and place (in) never change places between the package and go-openapi/errors.",
		NotDecided:  "Best-branch selection text for anyOf/oneOf; that every sub-validator uses its own Path in every message; message wording. Found by probing, outside the stated location claim: list items carry no index; swagger-option 'required' errors carry the keyword as name.",
		Assumptions: []string{trustDeps},
	}
}

func init() {
	Properties["C16"] = PropSpec{
		Rules: []Rule{ElementsAll, MultipleTable, DeadTailIn("validator.go", "values.go", "type.go", "formats.go"), ErrValue, EqualTable, DataWalk, DatumFree, Chain, EnumConvert, Keywords("ParamValidator", simpleKeywords, "param_ctor_calls"), Keywords("HeaderValidator", simpleKeywords, "header_ctor_calls"), Keywords("itemsValidator", simpleKeywords, "items_ctor_calls"), KeywordPosition, HelperField, KeywordGuard,
			Narrow, Orderings, OrderingsTyped, Pure, TypeTable, AppliesTable, KeywordPred, ArgRole,
			PanicInventory([]string{"NewParamValidator", "NewHeaderValidator", "(*ParamValidator).Validate", "(*HeaderValidator).Validate"}, []DynEntry{
				{Func: "(*ParamValidator).Validate", DataArg: 1}, {Func: "(*HeaderValidator).Validate", DataArg: 1}, {Func: "(*itemsValidator).Validate", DataArg: 2},
			}, goTypedDomain, "typed Go values: nil, bool, string and named strings, every integer and float width, json.Number, slices", "helpers")},
		Explanation: "Structural necessary conditions of the simple-schema semantics: CHAIN — Param/Header/items validators hold the same ordered groups (type, string, format, number, slice, enum), run a group only on the true edge of its own Applies, merge every non-nil group result, return at once for a nil value, and basicSliceValidator validates element i with a fresh items validator built from its Items; KEYWORDS — each of the 15 simple-schema constraints of the parameter/header/items definition reaches a sub-validator field that is read while validating; APPLIES-SOURCE — every definition type that can arrive as the source of Applies at a dispatcher is handled by the Applies of every group it holds (a missing case silently disables the group, e.g. for items of items), and Applies decides on the validator's own keyword, consulting the source's only as a fallback when its own is empty; KEYWORD-GUARD; ENUM-CONVERT; NARROW and ORDERINGS incl. the typed facades on the grid of carriers × values × constraints × exclusive (shared numeric path, see C13: a typed zero against minimum 0 exclusive must be rejected whatever its Go kind); panic-freedom for typed Go values via C06/C07's D-DYN. DATUM-FREE-ERROR: every error added by a validator depends on the instance (the three constraint-range diagnostics of the number validator do not: known findings). EXACT-ARITH: no numeric helper decides through a tolerance predicate (MultipleOf does: known finding). Enum clauses as for C14. MULTIPLE-TABLE; ERR-VALUE; DEAD-TAIL; ARG-ROLE crossed names (newFormatValidator(name, in, format) receives them in that order).",
		NotDecided:  "Per-keyword predicates; the type-inference table of schemaInfoForType; the meaning of formats. Found by probing, not decided: []uint8 as array, named string types vs the val.(string) assertion, the empty string header, uint64 above MaxInt64 without format, nil format registry.",
		Assumptions: []string{trustDeps},
	}
	Properties["C01"] = PropSpec{
		Rules:       []Rule{MultipleTable, DeadTailIn("values.go", "validator.go", "schema.go", "schema_props.go", "object_validator.go", "slice_validator.go", "type.go", "formats.go", "result.go"), ErrValue, EqualTable, DataWalk, PoolAPI, ExactArith, KeyExemption, Keywords("SchemaValidator", schemaKeywords, "schema_ctor_calls"), NilPath, Counting, Orderings, OrderingsTyped, Pure, ArgRole, TypeTable, AppliesTable, KeywordPosition, HelperField, ObjectRouting, SliceRouting, KeywordRouting, KeywordPred, KeywordGuard, EnumConvert, KConsistent, OneShot, PoolCtor, ResLinear, ResultAlgebra, MapOrder("(*SchemaValidator).Validate", "AgainstSchema")},
		Explanation: "Structural necessary conditions of draft-4 agreement, decided on every path: KEYWORDS — each of the 27 supported keywords of the schema is handed by newSchemaValidator to a sub-validator constructor, kept (itself or something built from it) in a field, and that field is read by the sub-validator's Validate/Applies (a keyword that is dropped or stored-but-never-read is a skipped constraint); COUNTING — oneOf/allOf are decided exactly by constant-propagating the post-loop region for every value of the counter of valid alternatives (0..3) and number of members, anyOf returns on the first valid alternative and errs after the loop otherwise, not errs exactly on the IsValid() edge of the sub-result, the counter is incremented once per valid alternative; TYPE-TABLE — the `type` keyword is decided exactly on a table of 246 cases (12 data incl. typed Go numbers × 9 type lists × nullable × format): the type validator, evaluated by constant propagation with its own fields bound to constants, returns an error exactly when draft 4 says the type does not match (integral numbers are integers, Go integers are numbers, nullable admits null, a format does not change the verdict of `type` for non-numeric data); APPLIES-TABLE — each group holding kind-specific keywords (string, number, object, array; identified by the schema keyword its constructor receives) admits exactly the reflect kinds those keywords govern (Applies evaluated for every kind by constant propagation); ROUTING — the object validator is executed on its control flow only, forking on structural atoms (recv.AdditionalProperties==nil, .Allows, .Schema==nil, has(recv.Properties,K), the results of the pattern matcher), methods of the receiver inlined: in every one of the ≈240 consistent configurations that reach the normal return, the generic member (K,V) of the instance is handed to the pattern matcher (which validates it against every matching pattern schema), and a member that is neither declared nor matched is validated against additionalProperties when that is a schema (exact over configurations: two edits that are each behaviour-preserving but together leave a configuration uncovered are reported, each one alone is not), additionalProperties:false raises 'not allowed' exactly for undeclared, unmatched, non-special names; the same enumeration for the array validator: items-as-schema validates every element, items-as-tuple validates position i against schema i, additionalItems (schema / false) applies exactly to the elements following a tuple and never without one; and for `required` (an error exactly for a name that is neither a member nor created from a default, the list being examined whenever it is not empty) and `dependencies` (schema dependency ⇒ the instance is validated against it, property dependency ⇒ an error exactly for each absent dependency, nothing for members that are absent or declare none); NILPATH — keyword groups whose Applies does not depend on the kind must also run for a nil instance (one genuine violation is a known finding); KEYWORD-GUARD — a constraint helper called from a Validate method is guarded only by the presence of its keyword, the type assertion and earlier outcomes, never by the instance value; ENUM-CONVERT — enum membership compares the instance converted to the member's type with that member; K-CONSISTENT/MEMBER-GUARD — every member (property, pattern/additional property, list/tuple/additional item) is validated against its schema under its own key and not filtered by its value or name; MAP-ORDER — no order-dependent early exit from map ranges in the schema validators; D-BOUND on the element loops (via C06); ONESHOT-EQ — AgainstSchema is NewSchemaValidator(...).Validate plus HasErrors; POOL-CTOR — no constraint field of a recycled validator is left from a previous schema; RES-LINEAR — no verdict is read from, merged from or released twice through a result that already went back to the pool (directly or through a variable that aliases it, e.g. the best-failure of anyOf/oneOf), which is what turns a later, unrelated validation into a wrong verdict; RESULT-ALGEBRA — every merge helper (Merge, mergeForField, mergeForSlice, MergeAsErrors…) applies the documented effects for every non-nil operand on every path, so the errors of a member or item can never be lost on the way to the verdict (for instance when schemata recording is switched off). POOL-API: the shared empty result is refused by the result redeemer. KEY-EXEMPTION, EXACT-ARITH (multipleOf through a tolerance predicate) and the enum clauses: violated on the current tree, listed as known findings with failing inputs. ERR-VALUE (no value used on the failure side of its error / ok companion); DEAD-TAIL (no early exit behind a condition constant by construction); MULTIPLE-TABLE (multipleOf exact on 247 dyadic cases); COUNTING applied-when-nonempty (each composition keyword runs from one member on).",
		NotDecided:  "Whether each keyword's predicate agrees with draft 4 (oneOf counting, integer-vs-number, enum equality across numeric types, regexp search semantics, format registries…): value-level, out of reach of static analysis; the checks decide that no keyword group is skipped, mis-keyed or conditioned on the wrong thing.",
		Assumptions: []string{trustDeps},
	}
}

func init() {
	Properties["C18"] = PropSpec{
		Rules:       []Rule{DeadTailIn("defaulter.go", "result.go", "object_validator.go", "slice_validator.go", "schema.go", "schema_props.go"), RefBlind, Schemata, SchemataModel, KConsistent, ResultAlgebra, ResLinear, GuardScope, ObjectRouting, SliceRouting, KeywordRouting},
		Explanation: "SCHEMATA/POST: the per-field and per-item schemata lists of a Result only receive appends to themselves or fresh slices (never the list of a result about to be recycled), every recorded entry holds cloned schemata, an absent member is recorded exactly on (absent, Default != nil, !skipSchemataResult), every schema-validation result — also for nil data — carries its schema as root schemata; ApplyDefaults has a single write, key.Object()[key.Field()] = s.Default, confined to members found absent by a comma-ok lookup of the same object and field, s ranging over that member's schemata with Default != nil, over every recorded member. K-CONSISTENT: each member's result is merged under (container, that member's key). RESULT-ALGEBRA/RES-LINEAR: merges apply their effects once and results are not used after release. Loop exhaustion: the member loop of ApplyDefaults is left only by exhaustion. Copy clause: ApplyDefaults inserts a deep copy of the default (it inserted the schema's own map/slice: fixed). SCHEMATA-MODEL (Append / Clone / Len / Slice of the schemata container decided on a symbolic heap over all shapes); REF-BLIND success edge.",
		NotDecided:  "Which anyOf/oneOf alternative's schemata survive, correctness at depth and that no other member appears beyond the single-write shape: value-level.",
		Assumptions: []string{trustDeps},
	}
	Properties["C19"] = PropSpec{
		Rules:       []Rule{DeadTailIn("prune.go", "result.go", "object_validator.go", "slice_validator.go", "schema.go", "schema_props.go"), OptionsKept, Schemata, SchemataModel, KConsistent, ResultAlgebra, ResLinear, GuardScope, ObjectRouting, SliceRouting, KeywordRouting},
		Explanation: "SCHEMATA/POST as for C18, and for pruning: pruneObject's single write is delete(obj, field) with field ranging over obj, decided by FieldSchemata()[NewFieldKey(obj, field)] of the same object and member; prune recurses into every map value and slice element. K-CONSISTENT: the result of validating a member (declared, pattern or additional property, tuple / additional / list item) is filed under (container, that member's own key or index), so a described member has schemata and an undescribed one has none. Loop exhaustion: the traversal loops of prune / pruneObject are left only by exhaustion; recursion depends only on the element's dynamic type. SCHEMATA-MODEL.",
		NotDecided:  "As C18; idempotence of pruning.",
		Assumptions: []string{trustDeps},
	}
}

func init() {
	Properties["C09"] = PropSpec{
		Rules:       []Rule{DeadTailIn("default_validator.go", "example_validator.go", "helpers.go"), Traverse, ResetBetween, ExpandRoot, CloneFaithful, ValueOptions, RuleSeq, GuardScope, ArgRole, KeywordPosition, Keywords("ParamValidator", simpleKeywords, "param_ctor_calls"), Keywords("HeaderValidator", simpleKeywords, "header_ctor_calls"), Keywords("itemsValidator", simpleKeywords, "items_ctor_calls")},
		Explanation: "TRAVERSE: (a) the recursive descent of both walkers calls itself on schema.Items.Schema, each of Items.Schemas, each of Properties, AdditionalProperties.Schema and each of AllOf, with a path that extends the current one and contains the loop key/index (so members get distinct visited-set keys), merged with Merge; the schema's own default/example is validated by a validator built from that schema; (b) the default and the example walker are compared step by step (callee, argument provenance, guard conditions, path shape): every traversal step of the default walker exists in the example walker under the same guards; (c) a leaf verdict on a default enters as Merge (error), on an example as MergeAsWarnings, and both walkers are merged with Merge in Validate (RULE-SEQ); (d) the skip predicate isVisited may answer true only on the found edge of the lookup of that path; RESET-BETWEEN: every top-level walk (per parameter, per response schema, per definition) starts from an emptied visited set on every path, loops included, so that a path of one walk can never be taken for a visited path of another. EXPAND-ROOT: every resolution/expansion request is given the validator's document or the root the function received, never nil. CLONE-FAITHFUL: schemas are never copied through encoding/gob (it drops pointers to zero values). VALUE-OPTIONS: validators judging default/example values take the walker's own options, a private copy with the swagger schema-shape switches stored false. TRAVERSE both ways (every recursive step of the example walker exists in the default walker and vice versa; both descend into patternProperties and additionalItems); DEAD-TAIL.",
		NotDecided:  "That each leaf validation is right (C01/C16); the behaviour of the recursion cut-off on circular specifications. Found by probing, not decided: further cases of the suffix heuristic and of dotted-path collisions inside one schema; response examples for media types other than application/json; unreferenced shared parameters/responses are not walked.",
		Assumptions: []string{trustDeps},
	}
}
