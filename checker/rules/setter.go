package rules

import (
	"go/token"
	"go/types"
	"strings"

	"golang.org/x/tools/go/ssa"

	"verifchk/core"
)

// SETTER — the exported setters and option constructors of the package (Set…, With…, Enable…, and the unexported
// with… options) do something with what they are given: every named parameter is stored, captured by the closure
// returned, or handed on. A setter that drops its argument compiles (Go accepts unused parameters) and leaves
// the configuration it was asked to change at its default: SetContinueOnErrors(true) then validates in the
// stop-at-first-error mode.
func Setter(p *core.Prog, r *core.Report) {
	const rule = "SETTER"
	n := 0
	for _, f := range p.Funcs {
		if f.Parent() != nil || !p.InSubject(f) || f.Synthetic != "" {
			continue
		}
		name := f.Name()
		lower := strings.ToLower(name)
		if !(strings.HasPrefix(lower, "set") || strings.HasPrefix(lower, "with") || strings.HasPrefix(lower, "enable")) {
			continue
		}
		params := f.Params
		if f.Signature.Recv() != nil && len(params) > 0 {
			params = params[1:]
		}
		for _, prm := range params {
			if prm.Name() == "_" || prm.Name() == "" {
				continue
			}
			n++
			used := false
			for _, ref := range core.Refs(prm) {
				if _, isDbg := ref.(*ssa.DebugRef); !isDbg {
					used = true
				}
			}
			// Set<Field>(v) stores v into the field of that name, not into a neighbour of the same type
			if strings.HasPrefix(name, "Set") && len(params) == 1 {
				want := strings.TrimPrefix(name, "Set")
				var into []string
				for _, ref := range core.Refs(prm) {
					if st, isSt := ref.(*ssa.Store); isSt && st.Val == ssa.Value(prm) {
						if fa, isFA := st.Addr.(*ssa.FieldAddr); isFA {
							_, fn, _ := core.FieldOf(fa)
							into = append(into, fn)
						}
					}
				}
				if len(into) > 0 {
					hit := false
					for _, fn := range into {
						if fn == want {
							hit = true
						}
					}
					if hit {
						r.OK(rule, core.FuncName(f)+":field", p.Pos(f.Pos()), "stores its argument into the field "+want)
					} else {
						r.Bad(rule, core.FuncName(f)+":field", p.Pos(f.Pos()), core.FuncName(f)+" stores its argument into "+strings.Join(into, ", ")+" and not into "+want+": the setting asked for keeps its value and another one changes")
					}
				}
			}
			key := core.FuncName(f) + ":" + prm.Name()
			if used {
				r.OK(rule, key, p.Pos(f.Pos()), "the argument is stored, captured or handed on")
			} else {
				r.Bad(rule, key, p.Pos(f.Pos()), core.FuncName(f)+" ignores its argument "+prm.Name()+": the setting it is asked to change keeps its previous value")
			}
		}
	}
	r.Count("setter_params", n)
	r.Floor("setter_params", 6)
}

// OPTIONS-KEPT — a constructor that receives the caller's options keeps them: a fresh options object is made only
// where the caller gave none (`if opts == nil { opts = new(…) }`). Made unconditionally, the validator and the
// children it builds run with the zero options — the recycling switches, the schema-shape rules of the Swagger
// pass and the skip-schemata switch of the caller are silently dropped below that validator.
func OptionsKept(p *core.Prog, r *core.Report) {
	const rule = "OPTIONS-KEPT"
	n := 0
	for _, f := range p.Funcs {
		if f.Parent() != nil || !p.InSubject(f) {
			continue
		}
		var opt *ssa.Parameter
		for _, prm := range f.Params {
			if pt, ok := prm.Type().Underlying().(*types.Pointer); ok {
				if nm := core.NamedOf(pt.Elem()); nm != nil && core.KnownTypeName(nm) == "SchemaValidatorOptions" {
					opt = prm
				}
			}
		}
		if opt == nil {
			continue
		}
		core.EachInstr(f, func(i ssa.Instruction) {
			al, ok := i.(*ssa.Alloc)
			if !ok || !al.Heap {
				return
			}
			if nm := core.NamedOf(al.Type().Underlying().(*types.Pointer).Elem()); nm == nil || core.KnownTypeName(nm) != "SchemaValidatorOptions" {
				return
			}
			n++
			guarded := false
			for _, cd := range core.CondsAt(al.Block()) {
				bo, isBo := cd.Value.(*ssa.BinOp)
				if !isBo || !((bo.X == ssa.Value(opt) && core.IsNilConst(bo.Y)) || (bo.Y == ssa.Value(opt) && core.IsNilConst(bo.X))) {
					continue
				}
				if (bo.Op == token.EQL) == cd.Sense {
					guarded = true
				}
			}
			key := core.FuncName(f) + ":fresh-options"
			if guarded {
				r.OK(rule, key, p.Pos(al.Pos()), "fresh options only where the caller gave none")
			} else {
				r.Bad(rule, key, p.Pos(al.Pos()), core.FuncName(f)+" makes fresh options although it may have been given some: the caller's switches (recycling, skip-schemata, the schema-shape rules of the Swagger pass) are dropped for this validator and everything it builds")
			}
		})
	}
	r.Count("options_defaulting_sites", n)
	r.Floor("options_defaulting_sites", 8)
}
