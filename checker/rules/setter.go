package rules

import (
	"strings"

	"golang.org/x/tools/go/ssa"

	"verifchk/core"
)

// SETTER — the exported setters and option constructors of the package (Set…, With…, Enable…, and the unexported
// with… options) do something with what they are given: every named parameter is stored, captured by the closure
// returned, or handed on. A setter that drops its argument compiles (Go accepts unused parameters) and leaves
// the configuration it was asked to change at its default: SetContinueOnErrors(true) then validates in the
// stop-at-first-error mode.
func Setter(p *core.Prog, r *core.Report) {
	const rule = "SETTER"
	n := 0
	for _, f := range p.Funcs {
		if f.Parent() != nil || !p.InSubject(f) || f.Synthetic != "" {
			continue
		}
		name := f.Name()
		lower := strings.ToLower(name)
		if !(strings.HasPrefix(lower, "set") || strings.HasPrefix(lower, "with") || strings.HasPrefix(lower, "enable")) {
			continue
		}
		params := f.Params
		if f.Signature.Recv() != nil && len(params) > 0 {
			params = params[1:]
		}
		for _, prm := range params {
			if prm.Name() == "_" || prm.Name() == "" {
				continue
			}
			n++
			used := false
			for _, ref := range core.Refs(prm) {
				if _, isDbg := ref.(*ssa.DebugRef); !isDbg {
					used = true
				}
			}
			key := core.FuncName(f) + ":" + prm.Name()
			if used {
				r.OK(rule, key, p.Pos(f.Pos()), "the argument is stored, captured or handed on")
			} else {
				r.Bad(rule, key, p.Pos(f.Pos()), core.FuncName(f)+" ignores its argument "+prm.Name()+": the setting it is asked to change keeps its previous value")
			}
		}
	}
	r.Count("setter_params", n)
	r.Floor("setter_params", 6)
}
