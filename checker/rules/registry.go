package rules

import (
	"encoding/json"
	"fmt"
	"os"
	"os/exec"
	"path/filepath"
	"sort"
	"strings"

	"verifchk/core"
)

type Rule func(p *core.Prog, r *core.Report)

type PropSpec struct {
	Rules          []Rule
	DebugConfigToo bool
	Explanation    string
	NotDecided     string
	Assumptions    []string
	// OutOfDomain: obligation-key prefixes of shared rules that say nothing about this property, with the reason
	// (e.g. a clause about typed Go values for a property whose inputs are decoded JSON documents). An undischarged
	// obligation with such a key is recorded as discharged "outside the property's domain" instead of failing.
	OutOfDomain map[string]string
}

// ApplyDomain marks the obligations that lie outside the property's stated domain.
func ApplyDomain(spec PropSpec, r *core.Report) {
	if len(spec.OutOfDomain) == 0 {
		return
	}
	for i := range r.Obls {
		o := &r.Obls[i]
		if o.Status == core.Discharged {
			continue
		}
		for pre, why := range spec.OutOfDomain {
			if strings.HasPrefix(o.Key, pre) {
				o.Status = core.Discharged
				o.By = "outside this property's domain (" + why + "); the clause is decided where it applies — " + o.Detail
				o.Detail = ""
			}
		}
	}
}

var Properties = map[string]PropSpec{}

// Control is a positive control: a small textual edit of one file, applied in memory only, that must make
// the named rule report a violation. Controls prove on every run that a rule is able to fire (a rule that
// matches nothing passes vacuously otherwise). A control whose anchor text no longer exists is skipped
// with a note: it proves nothing, and the instance floors still guard against blindness.
type Control struct {
	ID       string `json:"id"`
	Property string `json:"property"`
	File     string `json:"file"`
	Old      string `json:"old"`
	New      string `json:"new"`
	Old2     string `json:"old2,omitempty"` // optional second edit of the same file (e.g. an import)
	New2     string `json:"new2,omitempty"`
	Expect   string `json:"expect"` // prefix of the obligation key that must turn red
	Quick    bool   `json:"quick"`
}

func violatedKeys(obls []core.Obligation) map[string]bool {
	m := map[string]bool{}
	for _, o := range obls {
		if o.Status != core.Discharged {
			m[o.Key] = true
		}
	}
	return m
}

// Controls runs the positive controls registered for the property (quick tier: those flagged quick).
func Controls(id, repo, verif, tier string, r *core.Report) {
	b, err := os.ReadFile(filepath.Join(verif, "tables", "controls.json"))
	if err != nil {
		return
	}
	var all []Control
	if err := json.Unmarshal(b, &all); err != nil {
		r.Unk("CONTROL", "table", "-", "tables/controls.json does not parse: "+err.Error())
		return
	}
	spec := Properties[id]
	base := violatedKeys(r.Obls)
	var fired, skipped []string
	for _, c := range all {
		if c.Property != id || (tier == "quick" && !c.Quick) {
			continue
		}
		path := filepath.Join(repo, c.File)
		src, err := os.ReadFile(path)
		if err != nil || strings.Count(string(src), c.Old) != 1 {
			skipped = append(skipped, c.ID+" (anchor text not found exactly once)")
			continue
		}
		mod := strings.Replace(string(src), c.Old, c.New, 1)
		if c.Old2 != "" {
			if strings.Count(mod, c.Old2) != 1 {
				skipped = append(skipped, c.ID+" (second anchor text not found exactly once)")
				continue
			}
			mod = strings.Replace(mod, c.Old2, c.New2, 1)
		}
		p, err := core.LoadOverlay(repo, "", map[string][]byte{path: []byte(mod)})
		if err != nil {
			skipped = append(skipped, c.ID+" (edited program does not type-check: "+firstLine(err.Error())+")")
			continue
		}
		p.ApplyAnchors(filepath.Join(verif, "tables", "anchors.json"))
		ResolveOptionFields(p)
		sub := core.NewReport()
		func() {
			defer func() { recover() }()
			for _, rl := range spec.Rules {
				rl(p, sub)
			}
		}()
		ApplyDomain(spec, sub)
		hit := ""
		for k := range violatedKeys(sub.Obls) {
			if strings.HasPrefix(k, c.Expect) && !base[k] {
				hit = k
			}
		}
		if hit != "" {
			fired = append(fired, c.ID+" -> "+hit)
			r.OK("CONTROL", c.ID, c.File, "positive control fired: "+hit)
		} else {
			r.Unk("CONTROL", c.ID, c.File, "positive control did not fire: the edit '"+c.ID+"' breaks the property but no obligation with prefix "+c.Expect+" turned red — the rule has gone blind")
		}
	}
	r.Info["positive_controls_fired"] = fired
	if len(skipped) > 0 {
		r.Info["positive_controls_skipped"] = skipped
	}
}

func firstLine(s string) string {
	if i := strings.IndexByte(s, '\n'); i >= 0 {
		return s[:i]
	}
	return s
}

// Deep widens the finite tables and grids of the exact-decision rules (thorough tier): ORDERINGS and the typed
// facades on a larger grid, COUNTING for more counter values, TYPE-TABLE with every Go numeric carrier.
var Deep bool

// Thorough runs the slower parts of the thorough tier: mutant witnesses (each in its own process, on a
// scratch copy outside /repo and /verif that is removed at once) and the cross-reference tools, whose
// output is recorded and never decides.
func Thorough(id, repo, verif string, r *core.Report) {
	type wit struct {
		Patch string   `json:"patch"`
		Props []string `json:"caught_by"`
	}
	var wits []wit
	if b, err := os.ReadFile(filepath.Join(verif, "tables", "witnesses.json")); err == nil {
		json.Unmarshal(b, &wits)
	}
	self, _ := os.Executable()
	base := violatedKeys(r.Obls)
	var caught, missed, inapplicable []string
	sem := make(chan struct{}, 8)
	type res struct {
		name string
		st   string
	}
	out := make(chan res, len(wits))
	n := 0
	for _, w := range wits {
		mine := false
		for _, pid := range w.Props {
			if pid == id {
				mine = true
			}
		}
		if !mine {
			continue
		}
		n++
		go func(w wit) {
			sem <- struct{}{}
			defer func() { <-sem }()
			scr, err := os.MkdirTemp("", "vchk-witness-")
			if err != nil {
				out <- res{w.Patch, "inapplicable"}
				return
			}
			defer os.RemoveAll(scr)
			sh := fmt.Sprintf("cd %q && git archive HEAD | tar -x -C %q && (git diff HEAD | (cd %q && patch -p1 -s >/dev/null 2>&1 || true)) && cd %q && patch -p1 -s -f < %q", repo, scr, scr, scr, filepath.Join(verif, w.Patch))
			if err := exec.Command("bash", "-c", sh).Run(); err != nil {
				out <- res{w.Patch, "inapplicable"}
				return
			}
			o, err := exec.Command(self, "-repo", scr, "-verif", verif, "-keys", id).Output()
			if err != nil {
				out <- res{w.Patch, "inapplicable"}
				return
			}
			var ks []string
			lines := strings.Split(strings.TrimSpace(string(o)), "\n")
			json.Unmarshal([]byte(lines[len(lines)-1]), &ks)
			for _, k := range ks {
				if !base[k] {
					out <- res{w.Patch, "caught: " + k}
					return
				}
			}
			out <- res{w.Patch, "missed"}
		}(w)
	}
	for i := 0; i < n; i++ {
		x := <-out
		switch {
		case strings.HasPrefix(x.st, "caught"):
			caught = append(caught, x.name+" — "+strings.TrimPrefix(x.st, "caught: "))
		case x.st == "missed":
			missed = append(missed, x.name)
			fmt.Printf("WITNESS-MISSED property=%s %s (a seeded change this check used to catch is no longer reported)\n", id, x.name)
		default:
			inapplicable = append(inapplicable, x.name)
		}
	}
	sort.Strings(caught)
	sort.Strings(missed)
	sort.Strings(inapplicable)
	r.Info["witnesses_caught"] = caught
	r.Info["witnesses_missed"] = missed
	r.Info["witnesses_inapplicable"] = inapplicable
	r.Count("witnesses_run", n)
	// cross-reference tools: recorded, never deciding
	xr := map[string]any{}
	for _, t := range [][]string{{"go", "vet", "./..."}, {"staticcheck", "./..."}, {"errcheck", "./..."}} {
		cmd := exec.Command(t[0], t[1:]...)
		cmd.Dir = repo
		cmd.Env = append(os.Environ(), "GOFLAGS=-mod=mod", "GOPROXY=off", "GOSUMDB=off", "GOTOOLCHAIN=local")
		o, _ := cmd.CombinedOutput()
		lines := strings.Split(strings.TrimSpace(string(o)), "\n")
		if len(lines) == 1 && lines[0] == "" {
			lines = nil
		}
		if len(lines) > 8 {
			lines = append(lines[:8], fmt.Sprintf("... %d more", len(lines)-8))
		}
		xr[strings.Join(t, " ")] = map[string]any{"reports": len(lines), "first": lines}
	}
	r.Info["cross_reference_never_deciding"] = xr
}
