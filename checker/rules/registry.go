package rules

import "verifchk/core"

type Rule func(p *core.Prog, r *core.Report)

type PropSpec struct {
	Rules          []Rule
	DebugConfigToo bool
	Explanation    string
	NotDecided     string
	Assumptions    []string
}

var Properties = map[string]PropSpec{}

// Thorough runs the extra, slower parts of the thorough tier (filled in later).
func Thorough(id, repo, verif string, r *core.Report) {}
