package rules

import (
	"fmt"
	"go/token"
	"go/types"
	"sort"
	"strings"

	"golang.org/x/tools/go/ssa"

	"verifchk/core"
)

// FIELD-FED — a field of a validator struct that some code reads must be given a value somewhere: a store of
// something other than the zero constant through a field address (constructors, composite literals, setters),
// or its address handed to code that may fill it. A field that is read but only ever zero is a constructor that
// forgot it (a "refactoring" of field-by-field initialisation into one struct literal that omits Root makes
// every $ref inside a schema-valued dependency resolve against nothing: panic instead of a verdict).
func FieldFed(p *core.Prog, r *core.Report) {
	const rule = "FIELD-FED"
	type fkey struct {
		t *types.Named
		i int
	}
	read := map[fkey]string{}
	fed := map[fkey]bool{}
	note := func(fa *ssa.FieldAddr, f *ssa.Function) {
		n := core.NamedOf(fa.X.Type())
		if n == nil || !p.InSubjectPkg(n.Obj().Pkg()) {
			return
		}
		k := fkey{n, fa.Field}
		for _, ref := range core.Refs(fa) {
			switch u := ref.(type) {
			case *ssa.Store:
				if u.Addr == ssa.Value(fa) {
					if c, ok := u.Val.(*ssa.Const); ok && (c.Value == nil || isZeroConst(c)) {
						continue
					}
					fed[k] = true
				} else {
					fed[k] = true // the address itself is stored
				}
			case *ssa.UnOp:
				if u.Op == token.MUL {
					// a load that is only copied back as a whole struct does not count as a read
					if _, seen := read[k]; !seen {
						read[k] = core.FuncName(core.EnclosingTop(f)) + " at " + p.Pos(u.Pos())
					}
				}
			case *ssa.FieldAddr, *ssa.IndexAddr:
				// nested struct / array field: written through the inner address
				fed[k] = true
				if _, seen := read[k]; !seen {
					read[k] = core.FuncName(core.EnclosingTop(f)) + " at " + p.Pos(ref.Pos())
				}
			case *ssa.DebugRef:
			default:
				fed[k] = true // address escapes (call argument, closure binding, …)
			}
		}
	}
	for _, f := range p.Funcs {
		core.EachInstr(f, func(i ssa.Instruction) {
			switch x := i.(type) {
			case *ssa.FieldAddr:
				note(x, f)
			case *ssa.Field:
				if n := core.NamedOf(x.X.Type()); n != nil && n.Obj().Pkg() != nil && p.InSubjectPkg(n.Obj().Pkg()) {
					k := fkey{n, x.Field}
					if _, seen := read[k]; !seen {
						read[k] = core.FuncName(core.EnclosingTop(f)) + " at " + p.Pos(x.Pos())
					}
				}
			}
		})
	}
	var keys []fkey
	for k := range read {
		keys = append(keys, k)
	}
	sort.Slice(keys, func(a, b int) bool {
		if core.KnownTypeName(keys[a].t) != core.KnownTypeName(keys[b].t) {
			return core.KnownTypeName(keys[a].t) < core.KnownTypeName(keys[b].t)
		}
		return keys[a].i < keys[b].i
	})
	n := 0
	for _, k := range keys {
		st, ok := k.t.Underlying().(*types.Struct)
		if !ok {
			continue
		}
		fld := st.Field(k.i)
		// exported fields of exported types may be set by the caller; fields with struct tags by decoders
		if fld.Exported() && k.t.Obj().Exported() {
			continue
		}
		if st.Tag(k.i) != "" {
			continue
		}
		// zero-value-usable synchronisation and container types are used through their methods
		if ts := fld.Type().String(); strings.HasPrefix(ts, "sync.") || strings.HasPrefix(ts, "*sync.") {
			continue
		}
		n++
		key := core.KnownTypeName(k.t) + "." + fld.Name()
		if fed[k] {
			r.OK(rule, key, p.Pos(fld.Pos()), "read and given a value somewhere")
		} else {
			r.Bad(rule, key, p.Pos(fld.Pos()), fmt.Sprintf("field %s is read (%s) but no code ever gives it a value other than zero: whatever depends on it sees nil/empty for every input — for a root schema that means $refs resolving against nothing (panic), for a bound or flag a keyword that is never enforced", key, read[k]))
		}
	}
	r.Count("fields_read", n)
	r.Floor("fields_read", 60)
}

func isZeroConst(c *ssa.Const) bool {
	if c.Value == nil {
		return true
	}
	switch s := c.Value.ExactString(); s {
	case "0", `""`, "false":
		return true
	}
	return false
}
