package rules

import (
	"fmt"
	"go/ast"
	"strings"
	"go/token"

	"golang.org/x/tools/go/ssa"

	"verifchk/core"
)

// DEAD-TAIL — no early exit behind a condition that is true by construction. A branch on `len(x) >= 0`,
// `cap(x) >= 0`, `0 <= len(x)` (always true), `len(x) < 0` (always false) or on a value compared with itself
// always goes the same way; when that way leaves the function or the current iteration (return / continue),
// everything after it — the remaining members of a loop, the remaining rules of a function — is silently dead:
// the walk over the allOf parents stops after the first parent, a rule stops firing. Conditions of that kind that
// do not guard an exit are left alone (they are at worst useless).
// DeadTail examines the whole package; DeadTailIn only the given files (a property is told about its own code).
func DeadTail(p *core.Prog, r *core.Report) { deadTail(p, r, nil) }

func DeadTailIn(files ...string) Rule {
	return func(p *core.Prog, r *core.Report) { deadTail(p, r, files) }
}

func deadTail(p *core.Prog, r *core.Report, files []string) {
	const rule = "DEAD-TAIL"
	inScope := func(filename string) bool {
		if len(files) == 0 {
			return true
		}
		for _, f := range files {
			if strings.HasSuffix(filename, "/"+f) {
				return true
			}
		}
		return false
	}
	fnInScope := func(f *ssa.Function) bool {
		return inScope(p.Fset.Position(core.EnclosingTop(f).Pos()).Filename)
	}
	n, bad := 0, 0
	for _, f := range p.Funcs {
		if !p.InSubject(f) || !fnInScope(f) {
			continue
		}
		for _, b := range f.Blocks {
			ifi, ok := b.Instrs[len(b.Instrs)-1].(*ssa.If)
			if !ok {
				continue
			}
			n++
			bo, ok := ifi.Cond.(*ssa.BinOp)
			if !ok {
				continue
			}
			isLen := func(v ssa.Value) bool {
				c, ok := v.(*ssa.Call)
				if !ok {
					return false
				}
				bi, ok := c.Call.Value.(*ssa.Builtin)
				return ok && (bi.Name() == "len" || bi.Name() == "cap")
			}
			isZero := func(v ssa.Value) bool {
				k, ok := core.ConstInt(v)
				return ok && k == 0
			}
			always, decided := false, false
			switch {
			case isLen(bo.X) && isZero(bo.Y):
				switch bo.Op {
				case token.GEQ:
					always, decided = true, true
				case token.LSS:
					always, decided = false, true
				}
			case isZero(bo.X) && isLen(bo.Y):
				switch bo.Op {
				case token.LEQ:
					always, decided = true, true
				case token.GTR:
					always, decided = false, true
				}
			case bo.X == bo.Y:
				if _, isConst := bo.X.(*ssa.Const); !isConst {
					switch bo.Op {
					case token.EQL, token.LEQ, token.GEQ:
						always, decided = true, true
					case token.NEQ, token.LSS, token.GTR:
						always, decided = false, true
					}
				}
			}
			if !decided {
				continue
			}
			taken := b.Succs[1]
			if always {
				taken = b.Succs[0]
			}
			leaves := false
			switch t := taken.Instrs[len(taken.Instrs)-1].(type) {
			case *ssa.Return:
				leaves = true
			case *ssa.Jump:
				_ = t
				if len(taken.Instrs) == 1 && taken.Succs[0].Dominates(b) {
					leaves = true // nothing but the jump back to the head of the loop: `continue`
				}
			}
			if !leaves {
				continue
			}
			bad++
			r.Bad(rule, core.FuncName(f)+":constant-exit", p.Pos(bo.Pos()), fmt.Sprintf("the condition %s is %v by construction and the branch it always takes leaves the function or the iteration: what follows (the remaining elements of the loop, the remaining checks) never runs", bo.String(), always))
		}
	}
	if bad == 0 {
		r.OK(rule, "none", "-", fmt.Sprintf("no early exit is guarded by a condition that is constant by construction (%d branches examined)", n))
	}
	// a loop that cannot come round: the head of a range / for statement without an edge coming back — its body
	// always leaves (a break or return at its end), so that only the first element is ever looked at
	nLoops, once := 0, 0
	for _, f := range p.Funcs {
		if !p.InSubject(f) || !fnInScope(f) {
			continue
		}
		for _, b := range f.Blocks {
			isHead := strings.HasSuffix(b.Comment, ".loop")
			for _, ins := range b.Instrs {
				if _, isNext := ins.(*ssa.Next); isNext {
					isHead = true
				}
			}
			if !isHead || len(b.Instrs) == 0 {
				continue
			}
			nLoops++
			back := false
			for _, pr := range b.Preds {
				if b.Dominates(pr) {
					back = true
				}
			}
			if !back {
				once++
				r.Bad(rule, core.FuncName(f)+":loop-runs-once", p.Pos(posOf(b.Instrs[len(b.Instrs)-1], f)), "this loop can never reach its second element: every path through its body leaves it")
			}
		}
	}
	// the same on the syntax tree (a head without a way back is merged into its predecessor by go/ssa and loses its
	// mark): a for / range body whose last statement is an unconditional break or return, with no continue inside
	for _, pkg := range p.Pkgs {
		if pkg.Types == nil || !p.InSubjectPkg(pkg.Types) {
			continue
		}
		for _, file := range pkg.Syntax {
			if !inScope(pkg.Fset.Position(file.Pos()).Filename) {
				continue
			}
			for _, d := range file.Decls {
				fd, ok := d.(*ast.FuncDecl)
				if !ok || fd.Body == nil {
					continue
				}
				ast.Inspect(fd.Body, func(n ast.Node) bool {
					var body *ast.BlockStmt
					switch x := n.(type) {
					case *ast.ForStmt:
						body = x.Body
					case *ast.RangeStmt:
						body = x.Body
					}
					if body == nil || len(body.List) == 0 {
						return true
					}
					leaves := false
					switch l := body.List[len(body.List)-1].(type) {
					case *ast.BranchStmt:
						leaves = l.Tok == token.BREAK && l.Label == nil
					case *ast.ReturnStmt:
						leaves = true
					}
					if !leaves {
						return true
					}
					hasContinue := false
					ast.Inspect(body, func(m ast.Node) bool {
						switch y := m.(type) {
						case *ast.BranchStmt:
							if y.Tok == token.CONTINUE {
								hasContinue = true
							}
						case *ast.FuncLit:
							return false
						}
						return true
					})
					if !hasContinue {
						once++
						r.Bad(rule, fd.Name.Name+":loop-runs-once", p.Pos(body.List[len(body.List)-1].Pos()), "this loop can never reach its second element: its body ends in an unconditional break / return")
					}
					return true
				})
			}
		}
	}
	if once == 0 {
		r.OK(rule, "loops-come-round", "-", fmt.Sprintf("each of the %d loops can reach a second iteration", nLoops))
	}
	r.Count("loops_examined", nLoops)
	if len(files) == 0 {
		r.Floor("loops_examined", 60)
	}
	r.Count("branches_examined", n)
	if len(files) == 0 {
		r.Floor("branches_examined", 500)
	}
}

// ELEMENTS-ALL — the validator of a plain (non-schema) array judges every element: the loop that runs the items
// validator per element is left before exhaustion only where that element's result has errors.
func ElementsAll(p *core.Prog, r *core.Report) {
	const rule = "ELEMENTS-ALL"
	n := 0
	for _, f := range p.Funcs {
		if f.Parent() != nil || !p.InSubject(f) {
			continue
		}
		// loops whose body runs an items validator on an element
		for _, loop := range allLoopsOf(f) {
			var run *ssa.Call
			for b := range loop {
				for _, ins := range b.Instrs {
					if c, ok := ins.(*ssa.Call); ok {
						if g := core.StaticCallee(c); g != nil && core.FuncName(g) == "(*itemsValidator).Validate" {
							run = c
						}
					}
				}
			}
			if run == nil {
				continue
			}
			n++
			var header *ssa.BasicBlock
			for b := range loop {
				dom := true
				for o := range loop {
					if !b.Dominates(o) {
						dom = false
					}
				}
				if dom {
					header = b
				}
			}
			bad := ""
			for b := range loop {
				if b == header {
					continue
				}
				if _, isPanic := b.Instrs[len(b.Instrs)-1].(*ssa.Panic); isPanic {
					continue
				}
				var conds []core.Cond
				leaves := len(b.Succs) == 0
				if leaves {
					conds = core.CondsAt(b)
				}
				for _, sc := range b.Succs {
					if !loop[sc] {
						leaves = true
						conds = append(append([]core.Cond{}, core.CondsAt(b)...), condsOnEdge(b, sc)...)
					}
				}
				if !leaves {
					continue
				}
				onError := false
				for _, cd := range conds {
					c, ok := cd.Value.(*ssa.Call)
					if !ok {
						continue
					}
					h := core.StaticCallee(c)
					if h == nil || len(c.Call.Args) == 0 || c.Call.Args[0] != ssa.Value(run) {
						continue
					}
					if (h.Name() == "HasErrors" && cd.Sense) || (h.Name() == "IsValid" && !cd.Sense) {
						onError = true
					}
				}
				if !onError {
					bad = p.Pos(posOf(b.Instrs[len(b.Instrs)-1], f))
				}
			}
			key := core.FuncName(f) + ":every-element"
			if bad != "" {
				r.Bad(rule, key, bad, "the loop over the elements is left although the element just validated has no error: the remaining elements are never validated")
			} else {
				r.OK(rule, key, p.Pos(run.Pos()), "the loop over the elements is left early only on an element with errors")
			}
		}
	}
	r.Count("element_loops", n)
	r.Floor("element_loops", 1)
}
