package rules

import (
	"fmt"
	"go/token"

	"golang.org/x/tools/go/ssa"

	"verifchk/core"
)

// DEAD-TAIL — no early exit behind a condition that is true by construction. A branch on `len(x) >= 0`,
// `cap(x) >= 0`, `0 <= len(x)` (always true), `len(x) < 0` (always false) or on a value compared with itself
// always goes the same way; when that way leaves the function or the current iteration (return / continue),
// everything after it — the remaining members of a loop, the remaining rules of a function — is silently dead:
// the walk over the allOf parents stops after the first parent, a rule stops firing. Conditions of that kind that
// do not guard an exit are left alone (they are at worst useless).
func DeadTail(p *core.Prog, r *core.Report) {
	const rule = "DEAD-TAIL"
	n, bad := 0, 0
	for _, f := range p.Funcs {
		if !p.InSubject(f) {
			continue
		}
		for _, b := range f.Blocks {
			ifi, ok := b.Instrs[len(b.Instrs)-1].(*ssa.If)
			if !ok {
				continue
			}
			n++
			bo, ok := ifi.Cond.(*ssa.BinOp)
			if !ok {
				continue
			}
			isLen := func(v ssa.Value) bool {
				c, ok := v.(*ssa.Call)
				if !ok {
					return false
				}
				bi, ok := c.Call.Value.(*ssa.Builtin)
				return ok && (bi.Name() == "len" || bi.Name() == "cap")
			}
			isZero := func(v ssa.Value) bool {
				k, ok := core.ConstInt(v)
				return ok && k == 0
			}
			always, decided := false, false
			switch {
			case isLen(bo.X) && isZero(bo.Y):
				switch bo.Op {
				case token.GEQ:
					always, decided = true, true
				case token.LSS:
					always, decided = false, true
				}
			case isZero(bo.X) && isLen(bo.Y):
				switch bo.Op {
				case token.LEQ:
					always, decided = true, true
				case token.GTR:
					always, decided = false, true
				}
			case bo.X == bo.Y:
				if _, isConst := bo.X.(*ssa.Const); !isConst {
					switch bo.Op {
					case token.EQL, token.LEQ, token.GEQ:
						always, decided = true, true
					case token.NEQ, token.LSS, token.GTR:
						always, decided = false, true
					}
				}
			}
			if !decided {
				continue
			}
			taken := b.Succs[1]
			if always {
				taken = b.Succs[0]
			}
			leaves := false
			switch t := taken.Instrs[len(taken.Instrs)-1].(type) {
			case *ssa.Return:
				leaves = true
			case *ssa.Jump:
				_ = t
				if len(taken.Instrs) == 1 && taken.Succs[0].Dominates(b) {
					leaves = true // nothing but the jump back to the head of the loop: `continue`
				}
			}
			if !leaves {
				continue
			}
			bad++
			r.Bad(rule, core.FuncName(f)+":constant-exit", p.Pos(bo.Pos()), fmt.Sprintf("the condition %s is %v by construction and the branch it always takes leaves the function or the iteration: what follows (the remaining elements of the loop, the remaining checks) never runs", bo.String(), always))
		}
	}
	if bad == 0 {
		r.OK(rule, "none", "-", fmt.Sprintf("no early exit is guarded by a condition that is constant by construction (%d branches examined)", n))
	}
	r.Count("branches_examined", n)
	r.Floor("branches_examined", 500)
}
