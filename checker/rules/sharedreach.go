package rules

import (
	"fmt"

	"golang.org/x/tools/go/ssa"

	"verifchk/core"
)

// SHARED-REACH — no validation writes into memory reachable from a package-level variable without holding a
// lock. GLOBALS/LOCKSET decide the accesses to the variables themselves; this rule follows the references
// loaded out of them (the whole-package taint engine of INPUT-RO with the kind "process-shared": through
// φs, conversions, calls, returns, closures and — field-based — through the fields of the package's own
// objects, e.g. a validator that keeps a pointer to a shared options struct). A store, map update, delete or
// external mutator whose target is process-shared, outside package initialisation and with an empty must-held
// lockset, is a data race between any two validations and lets one validation change what another one sees.
// The shared empty result is governed by EMPTY-IMMUTABLE, pools and the regexp cache by POOL-API / COW.
func SharedReach(p *core.Prog, r *core.Report) {
	const rule = "SHARED-REACH"
	a := roRun(p, core.NewReport(), rule)
	li := computeLocks(p)
	initOnly := initOnlyFuncs(p)
	nSrc, nWrites := 0, 0
	var srcs []string
	for v, t := range a.val {
		if t.t1()&tShared != 0 {
			if u, ok := v.(*ssa.UnOp); ok {
				if g, ok := baseOfAddr(u.X).(*ssa.Global); ok {
					nSrc++
					srcs = append(srcs, g.Name())
				}
			}
		}
	}
	sortStrings(srcs)
	r.Info["shared_reference_sources"] = uniq(srcs)
	var fields []string
	for k, t := range a.fld {
		if (t.t1()|t.fromCopy())&tShared != 0 {
			fields = append(fields, k)
		}
	}
	sortStrings(fields)
	r.Info["fields_holding_shared_references"] = fields
	seq := map[string]int{}
	check := func(f *ssa.Function, at ssa.Instruction, target ssa.Value, what string) {
		t := a.get(target)
		if t.t1()&tShared == 0 {
			return
		}
		nWrites++
		base := core.FuncName(f) + ":" + what
		seq[base]++
		key := base
		if seq[base] > 1 {
			key = fmt.Sprintf("%s#%d", base, seq[base])
		}
		if initOnly[core.EnclosingTop(f)] || initOnly[f] {
			r.OK(rule, key, p.Pos(posOf(at, f)), "package initialisation (single goroutine)")
			return
		}
		if held := li.at[at]; len(held) > 0 {
			r.OK(rule, key, p.Pos(posOf(at, f)), "written with "+setStr(held)+" held")
			return
		}
		why := a.why[target]
		if why == "" {
			why = a.why[baseOfAddr(target)]
		}
		r.Bad(rule, key, p.Pos(posOf(at, f)), fmt.Sprintf("%s writes process-wide state without a lock: %s is reachable from a package-level variable (%s); every validator shares it, so concurrent validations race and one validation changes what another one observes", what, describe(target), why))
	}
	for _, f := range p.Funcs {
		if core.EnclosingTop(f).Pkg != p.Main {
			continue
		}
		core.EachInstr(f, func(i ssa.Instruction) {
			switch x := i.(type) {
			case *ssa.Store:
				base := baseOfAddr(x.Addr)
				if _, ok := base.(*ssa.Alloc); ok {
					return
				}
				if _, ok := base.(*ssa.Global); ok {
					return // the variable itself: GLOBALS / LOCKSET
				}
				check(f, i, base, "store through "+shortType(base.Type()))
			case *ssa.MapUpdate:
				check(f, i, x.Map, "map update of "+shortType(x.Map.Type()))
			case *ssa.Call:
				if b, ok := x.Call.Value.(*ssa.Builtin); ok {
					if b.Name() == "delete" || b.Name() == "copy" {
						check(f, i, x.Call.Args[0], b.Name()+" on "+shortType(x.Call.Args[0].Type()))
					}
					return
				}
				g := core.StaticCallee(x)
				if g == nil || p.InSubject(g) {
					return
				}
				if k, ok := extMutators[core.QualName(g)]; ok && k < len(x.Call.Args) {
					arg := x.Call.Args[k]
					if mi, ok := arg.(*ssa.MakeInterface); ok {
						arg = mi.X
					}
					check(f, i, arg, fmt.Sprintf("%s(#%d)", core.QualName(g), k))
				}
			}
		})
	}
	r.Count("shared_reference_loads", nSrc)
	r.Count("writes_through_shared_references", nWrites)
	if nWrites == 0 {
		r.OK(rule, "no-write-through-shared-reference", "-", fmt.Sprintf("%d loads of references out of package-level variables (%v); none of them, nor anything derived from them through calls or validator fields, is the target of a store, map update, delete or mutator", nSrc, uniq(srcs)))
	}
	r.Floor("shared_reference_loads", 1)
}
