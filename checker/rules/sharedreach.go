package rules

import (
	"fmt"
	"go/token"
	"sort"
	"strings"

	"golang.org/x/tools/go/ssa"

	"verifchk/core"
)

// SHARED-REACH — no validation writes into memory reachable from a package-level variable without holding a
// lock. GLOBALS/LOCKSET decide the accesses to the variables themselves; this rule follows the references
// loaded out of them (the whole-package taint engine of INPUT-RO with the kind "process-shared": through
// φs, conversions, calls, returns, closures and — field-based — through the fields of the package's own
// objects, e.g. a validator that keeps a pointer to a shared options struct). A store, map update, delete or
// external mutator whose target is process-shared, outside package initialisation and with an empty must-held
// lockset, is a data race between any two validations and lets one validation change what another one sees.
// The shared empty result is governed by EMPTY-IMMUTABLE, pools and the regexp cache by POOL-API / COW.
func SharedReach(p *core.Prog, r *core.Report) {
	const rule = "SHARED-REACH"
	a := roRun(p, core.NewReport(), rule)
	li := computeLocks(p)
	initOnly := initOnlyFuncs(p)
	nSrc, nWrites := 0, 0
	var srcs []string
	for v, t := range a.val {
		if t.t1()&tShared != 0 {
			if u, ok := v.(*ssa.UnOp); ok {
				if g, ok := baseOfAddr(u.X).(*ssa.Global); ok {
					nSrc++
					srcs = append(srcs, g.Name())
				}
			}
		}
	}
	sortStrings(srcs)
	r.Info["shared_reference_sources"] = uniq(srcs)
	var fields []string
	for k, t := range a.fld {
		if (t.t1()|t.fromCopy())&tShared != 0 {
			fields = append(fields, k)
		}
	}
	sortStrings(fields)
	r.Info["fields_holding_shared_references"] = fields
	seq := map[string]int{}
	check := func(f *ssa.Function, at ssa.Instruction, target ssa.Value, what string) {
		t := a.get(target)
		if t.t1()&tShared == 0 {
			return
		}
		nWrites++
		base := core.FuncName(f) + ":" + what
		seq[base]++
		key := base
		if seq[base] > 1 {
			key = fmt.Sprintf("%s#%d", base, seq[base])
		}
		if initOnly[core.EnclosingTop(f)] || initOnly[f] {
			r.OK(rule, key, p.Pos(posOf(at, f)), "package initialisation (single goroutine)")
			return
		}
		if held := li.at[at]; len(held) > 0 {
			r.OK(rule, key, p.Pos(posOf(at, f)), "written with "+setStr(held)+" held")
			return
		}
		why := a.why[target]
		if why == "" {
			why = a.why[baseOfAddr(target)]
		}
		r.Bad(rule, key, p.Pos(posOf(at, f)), fmt.Sprintf("%s writes process-wide state without a lock: %s is reachable from a package-level variable (%s); every validator shares it, so concurrent validations race and one validation changes what another one observes", what, describe(target), why))
	}
	for _, f := range p.Funcs {
		if core.EnclosingTop(f).Pkg != p.Main {
			continue
		}
		core.EachInstr(f, func(i ssa.Instruction) {
			switch x := i.(type) {
			case *ssa.Store:
				base := baseOfAddr(x.Addr)
				if _, ok := base.(*ssa.Alloc); ok {
					return
				}
				if _, ok := base.(*ssa.Global); ok {
					return // the variable itself: GLOBALS / LOCKSET
				}
				check(f, i, base, "store through "+shortType(base.Type()))
			case *ssa.MapUpdate:
				check(f, i, x.Map, "map update of "+shortType(x.Map.Type()))
			case *ssa.Call:
				if b, ok := x.Call.Value.(*ssa.Builtin); ok {
					if b.Name() == "delete" || b.Name() == "copy" {
						check(f, i, x.Call.Args[0], b.Name()+" on "+shortType(x.Call.Args[0].Type()))
					}
					return
				}
				g := core.StaticCallee(x)
				if g == nil || p.InSubject(g) {
					return
				}
				if k, ok := extMutators[core.QualName(g)]; ok && k < len(x.Call.Args) {
					arg := x.Call.Args[k]
					if mi, ok := arg.(*ssa.MakeInterface); ok {
						arg = mi.X
					}
					check(f, i, arg, fmt.Sprintf("%s(#%d)", core.QualName(g), k))
				}
			}
		})
	}
	r.Count("shared_reference_loads", nSrc)
	r.Count("writes_through_shared_references", nWrites)
	if nWrites == 0 {
		r.OK(rule, "no-write-through-shared-reference", "-", fmt.Sprintf("%d loads of references out of package-level variables (%v); none of them, nor anything derived from them through calls or validator fields, is the target of a store, map update, delete or mutator", nSrc, uniq(srcs)))
	}
	r.Floor("shared_reference_loads", 1)
}

// VARIADIC-APPEND — the slice behind a variadic parameter belongs to the caller (`f(opts...)` passes the caller's
// slice itself): `append(param, x)` writes x into the caller's backing array whenever it has spare capacity. Two
// goroutines calling with the same `opts...` race on that slot, and the caller's slice is silently altered.
// EXPAND-TRIGGER — the in-place expansion of a caller's schema is acceptable only for a schema that contains a
// reference (documented); a trigger that also fires for a mere `id` rewrites (with equal values, but rewrites)
// a reference-free schema shared by goroutines.
func VariadicAppend(p *core.Prog, r *core.Report) {
	const rule = "VARIADIC-APPEND"
	n := 0
	for _, f := range p.Funcs {
		if f.Parent() != nil || !f.Signature.Variadic() || len(f.Params) == 0 {
			continue
		}
		vp := f.Params[len(f.Params)-1]
		n++
		bad := ""
		// the caller's slice handed on to a helper of the package that appends to / stores through it
		var through func(g *ssa.Function, k int, d int) string
		through = func(g *ssa.Function, k int, d int) string {
			if g == nil || d > 3 || !p.InSubject(g) || k >= len(g.Params) {
				return ""
			}
			prm := g.Params[k]
			res := ""
			core.EachInstr(g, func(i ssa.Instruction) {
				switch x := i.(type) {
				case *ssa.Call:
					if b, isB := x.Call.Value.(*ssa.Builtin); isB && b.Name() == "append" && len(x.Call.Args) > 0 && x.Call.Args[0] == ssa.Value(prm) {
						res = p.Pos(x.Pos())
					}
					if h := core.StaticCallee(x); h != nil {
						for j, a := range x.Call.Args {
							if a == ssa.Value(prm) {
								if w := through(h, j, d+1); w != "" {
									res = w
								}
							}
						}
					}
				case *ssa.Store:
					if ia, ok := x.Addr.(*ssa.IndexAddr); ok && ia.X == ssa.Value(prm) {
						res = p.Pos(x.Pos())
					}
				}
			})
			return res
		}
		core.EachInstr(f, func(i ssa.Instruction) {
			if c, ok := i.(*ssa.Call); ok {
				if h := core.StaticCallee(c); h != nil && p.InSubject(h) {
					for j, a := range c.Call.Args {
						if a == ssa.Value(vp) && !(h.Signature.Variadic() && j == len(h.Params)-1) {
							if w := through(h, j, 1); w != "" {
								bad = w + " (through " + core.FuncName(h) + ")"
							}
						}
					}
				}
			}
		})
		core.EachInstr(f, func(i ssa.Instruction) {
			c, ok := i.(*ssa.Call)
			if !ok {
				return
			}
			if b, isB := c.Call.Value.(*ssa.Builtin); isB && b.Name() == "append" && len(c.Call.Args) > 0 && c.Call.Args[0] == ssa.Value(vp) {
				bad = p.Pos(c.Pos())
			}
			if st, isSt := i.(*ssa.Store); isSt {
				_ = st
			}
		})
		// element stores through the parameter
		core.EachInstr(f, func(i ssa.Instruction) {
			if st, ok := i.(*ssa.Store); ok {
				if ia, ok := st.Addr.(*ssa.IndexAddr); ok && ia.X == ssa.Value(vp) {
					bad = p.Pos(st.Pos())
				}
			}
		})
		key := core.FuncName(f) + ":" + vp.Name()
		if bad != "" {
			r.Bad(rule, key, bad, core.FuncName(f)+" appends to (or stores into) its variadic parameter "+vp.Name()+": with spare capacity in the caller's slice the write lands in the caller's backing array — concurrent calls with the same `"+vp.Name()+"...` race on it and the caller's slice is altered")
		} else {
			r.OK(rule, key, p.Pos(f.Pos()), "the caller's variadic slice is only read")
		}
	}
	r.Count("variadic_functions", n)
	r.Floor("variadic_functions", 5)

	// EXPAND-TRIGGER
	const rule2 = "EXPAND-TRIGGER"
	ctor := p.Func("newSchemaValidator")
	if ctor == nil {
		r.Unk(rule2, "anchor", "-", "newSchemaValidator not found")
		return
	}
	core.EachInstr(ctor, func(i ssa.Instruction) {
		c, ok := i.(*ssa.Call)
		if !ok {
			return
		}
		g := core.StaticCallee(c)
		if g == nil || core.QualName(g) != "spec.ExpandSchema" {
			return
		}
		// the triggers: the branch edges that enter the block of the call (the members of `a || b || c`)
		var nonRef []string
		body := c.Block()
		for _, pr := range body.Preds {
			ifi, ok := pr.Instrs[len(pr.Instrs)-1].(*ssa.If)
			if !ok {
				continue
			}
			sense := pr.Succs[0] == body
			v := ifi.Cond
			for {
				if u, ok := v.(*ssa.UnOp); ok && u.Op == token.NOT {
					v, sense = u.X, !sense
					continue
				}
				break
			}
			desc := condAtom(core.Cond{If: ifi, Value: v, Sense: sense})
			if strings.Contains(desc, "Ref") {
				continue
			}
			nonRef = append(nonRef, desc)
		}
		sort.Strings(nonRef)
		if len(nonRef) > 0 {
			r.Bad(rule2, "newSchemaValidator:ExpandSchema", p.Pos(c.Pos()), "the in-place expansion of the caller's schema is also triggered by "+strings.Join(nonRef, ", ")+" (not a reference): a reference-free schema carrying an `id` is rewritten — every map entry and sub-schema re-assigned — on each validation; goroutines sharing that schema race (fatal 'concurrent map writes')")
		} else {
			r.OK(rule2, "newSchemaValidator:ExpandSchema", p.Pos(c.Pos()), "expansion is triggered by the schema's reference only")
		}
	})
}
