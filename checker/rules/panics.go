package rules

import (
	"fmt"
	"go/token"
	"go/types"
	"strings"

	"golang.org/x/tools/go/ssa"

	"verifchk/core"
)

// documented / unreachable explicit panics, keyed by function (never by line), with the reason.
var documentedPanics = map[string]struct {
	n      int
	reason string
}{
	"newSchemaValidator":                  {1, "documented: 'Panics if the provided schema is invalid' (unresolvable references): excluded by C06; for C07 its reachability is decided by EXPAND-FIRST"},
	"(*SpecValidator).Validate":           {1, "json.Unmarshal of doc.Raw(): the loader already unmarshalled these bytes"},
	"(*SpecValidator).validateParameters": {2, "shape of the embedded Swagger meta-schema (#/definitions/parameter present, gob-clonable): constant data shipped with the package"},
	"(*typeValidator).schemaInfoForType":  {1, "reflect.ValueOf(x).Kind() is never Interface for a value obtained from an interface{}"},
}

// PanicInventory enumerates every instruction that can panic at the language or reflect level in the
// functions reachable from the entry points and requires each to be closed by a discharge rule.
func PanicInventory(cgEntries []string, dynEntries []DynEntry, universe []atom, domainText string, opts ...string) Rule {
	return func(p *core.Prog, r *core.Report) {
		cg := core.BuildCallGraph(p)
		_, missing := cg.Reachable(cgEntries...)
		for _, m := range missing {
			r.Unk("PANIC-INVENTORY", "entry:"+m, "-", "entry point not found")
		}
		reach := reachableRefined(p, cg, cgEntries)
		r.Count("reachable_functions", len(reach))
		minReach := 60
		for _, o := range opts {
			if o == "helpers" {
				minReach = 15
			}
		}
		r.Floor("reachable_functions", minReach)
		di := runDyn(p, r, "D-DYN", dynEntries, universe, domainText, opts...)
		pi := di.na.slotFields.pi

		nPanic, nDiv, nTA, nRefl, nCmp := 0, 0, 0, 0, 0
		perFn := map[string]int{}
		seq := map[string]int{}
		mk := func(base string) string {
			seq[base]++
			if seq[base] > 1 {
				return fmt.Sprintf("%s#%d", base, seq[base])
			}
			return base
		}
		for _, f := range p.Funcs {
			if !reach[f] {
				continue
			}
			fn := core.FuncName(f)
			core.EachInstr(f, func(i ssa.Instruction) {
				switch x := i.(type) {
				case *ssa.Panic:
					nPanic++
					perFn[core.FuncName(core.EnclosingTop(f))]++
				case *ssa.BinOp:
					if x.Op == token.EQL || x.Op == token.NEQ {
						if holdsInterface(x.X.Type(), 0) {
							nCmp++
							key := mk(fn + ":compare " + typeShort(x.X.Type()))
							if comparableSide(x.X) || comparableSide(x.Y) {
								r.OK("D-CMP", key, p.Pos(x.Pos()), "one side is nil, a constant, a value of comparable static type or an untouched zero value: the comparison cannot meet two equal uncomparable dynamic types")
							} else {
								r.Bad("D-CMP", key, p.Pos(x.Pos()), "== / != on values holding interfaces whose dynamic types may both be the same uncomparable type (map, slice, func): runtime panic 'comparing uncomparable type'")
							}
						}
						return
					}
					if x.Op != token.QUO && x.Op != token.REM {
						return
					}
					b, ok := x.X.Type().Underlying().(*types.Basic)
					if !ok || b.Info()&types.IsInteger == 0 {
						return
					}
					nDiv++
					key := mk(fn + ":integer division by " + describe(x.Y))
					if nonZero(x.Y, x.Block()) {
						r.OK("D-DIV", key, p.Pos(x.Pos()), "divisor is a non-zero constant or a dominating test excludes zero")
					} else {
						r.Bad("D-DIV", key, p.Pos(x.Pos()), "integer division whose divisor is not excluded from being zero on this path (runtime panic: integer divide by zero)")
					}
				case *ssa.TypeAssert:
					if x.CommaOk {
						return
					}
					nTA++
					key := mk(fn + ":assert " + types.TypeString(x.AssertedType, types.RelativeTo(p.Main.Pkg)))
					if _, isB := pi.borrow[core.EnclosingTop(f)]; isB {
						if poolTypeOK(p, pi, f, x) {
							r.OK("D-POOLTYPE", key, p.Pos(x.Pos()), "pool.Get() asserted to the type its New function allocates and its Redeem function accepts")
						} else {
							r.Bad("D-POOLTYPE", key, p.Pos(x.Pos()), "the type asserted on pool.Get() differs from what the pool's New/Redeem put in")
						}
						return
					}
					if di.checked[i] {
						return // reported (OK or violated) by D-DYN
					}
					if _, toIface := x.AssertedType.Underlying().(*types.Interface); toIface {
						if _, fromIface := x.X.Type().Underlying().(*types.Interface); fromIface && types.AssignableTo(x.X.Type(), x.AssertedType) {
							r.OK("D-OK", key, p.Pos(x.Pos()), "interface widening")
							return
						}
					}
					if di.analysed[f] && !di.reached[x.Block()] {
						r.OK("D-DYN-UNREACHED", key, p.Pos(x.Pos()), "the enclosing function was interpreted for every dynamic type of the domain and no run reaches this block ("+domainText+")")
						return
					}
					r.Unk("PANIC-INVENTORY", key, p.Pos(x.Pos()), "unchecked type assertion reachable from the entry points but not evaluated by any abstract run: no discharge rule applies")
				case *ssa.Call:
					g := core.StaticCallee(x)
					if g == nil {
						return
					}
					q := core.QualName(g)
					if !strings.HasPrefix(q, "reflect.Value.") {
						return
					}
					m := strings.TrimPrefix(q, "reflect.Value.")
					_, kindSpecific := kindLegal[m]
					if !kindSpecific && m != "Interface" && m != "Type" && m != "Convert" {
						return
					}
					nRefl++
					if di.checked[i] {
						return
					}
					key := mk(fn + ":" + q)
					// not reached by an abstract run with a known datum: fall back to local guards
					ok := false
					switch m {
					case "Interface", "Type":
						ok = di.validGuarded(x)
					case "Convert":
						ok = di.convertGuarded(x)
					default:
						ok = di.kindGuarded(x, m)
					}
					if ok {
						r.OK("D-KIND", key, p.Pos(x.Pos()), "guarded locally by a test on Kind()/IsValid()/ConvertibleTo of the same value")
					} else if di.analysed[f] && !di.reached[x.Block()] {
						r.OK("D-DYN-UNREACHED", key, p.Pos(x.Pos()), "the enclosing function was interpreted for every dynamic type of the domain and no run reaches this block ("+domainText+")")
					} else {
						r.Unk("PANIC-INVENTORY", key, p.Pos(x.Pos()), "kind-specific reflect call reachable from the entry points, neither evaluated by an abstract run nor guarded locally")
					}
				}
			})
		}
		// D-DOC
		for fn, n := range perFn {
			doc, ok := documentedPanics[fn]
			switch {
			case !ok:
				r.Bad("D-DOC", fn+":panic", p.Pos(p.Func(fn).Pos()), fmt.Sprintf("%d explicit panic(s) in a function reachable from the entry points that is not in the table of documented/unreachable panics", n))
			case n > doc.n:
				r.Bad("D-DOC", fn+":panic", p.Pos(p.Func(fn).Pos()), fmt.Sprintf("%d explicit panics, only %d reviewed (%s)", n, doc.n, doc.reason))
			default:
				r.OK("D-DOC", fn+":panic", p.Pos(p.Func(fn).Pos()), fmt.Sprintf("%d reviewed: %s", n, doc.reason))
			}
		}
		r.Count("explicit_panics", nPanic)
		r.Count("integer_divisions", nDiv)
		r.Count("unchecked_type_assertions", nTA)
		r.Count("reflect_kind_calls", nRefl)
		r.Count("interface_comparisons", nCmp)
		r.Note("PANIC-INVENTORY: %d reachable functions from %v: %d explicit panics, %d integer divisions, %d unchecked assertions, %d kind-specific reflect calls", len(reach), cgEntries, nPanic, nDiv, nTA, nRefl)
	}
}

func nonZero(v ssa.Value, b *ssa.BasicBlock) bool {
	if c, ok := core.ConstInt(v); ok {
		return c != 0
	}
	for _, cd := range core.CondsAt(b) {
		bo, ok := cd.Value.(*ssa.BinOp)
		if !ok {
			continue
		}
		var k int64
		var okc bool
		op := bo.Op
		if bo.X == v {
			k, okc = core.ConstInt(bo.Y)
		} else if bo.Y == v {
			k, okc = core.ConstInt(bo.X)
			switch op {
			case token.LSS:
				op = token.GTR
			case token.GTR:
				op = token.LSS
			case token.LEQ:
				op = token.GEQ
			case token.GEQ:
				op = token.LEQ
			}
		}
		if !okc {
			continue
		}
		if !cd.Sense {
			switch op {
			case token.LSS:
				op = token.GEQ
			case token.LEQ:
				op = token.GTR
			case token.GTR:
				op = token.LEQ
			case token.GEQ:
				op = token.LSS
			case token.EQL:
				op = token.NEQ
			case token.NEQ:
				op = token.EQL
			}
		}
		switch op {
		case token.GTR:
			if k >= 0 {
				return true
			}
		case token.GEQ:
			if k >= 1 {
				return true
			}
		case token.NEQ:
			if k == 0 {
				return true
			}
		case token.LSS:
			if k <= 0 {
				return true
			}
		case token.LEQ:
			if k <= -1 {
				return true
			}
		}
	}
	return false
}

// poolTypeOK: in a borrow function, Get() is asserted to the pointer type that the sibling redeem
// function of the same holder type accepts, and that the New closures for that holder return.
func poolTypeOK(p *core.Prog, pi *poolInfo, f *ssa.Function, ta *ssa.TypeAssert) bool {
	top := core.EnclosingTop(f)
	if top.Signature.Recv() == nil {
		return false
	}
	holder := core.NamedOf(top.Signature.Recv().Type())
	okRedeem, anyRedeem := false, false
	for g, T := range pi.redeem {
		if g.Signature.Recv() != nil && core.NamedOf(g.Signature.Recv().Type()) == holder {
			anyRedeem = true
			if types.Identical(T, ta.AssertedType) {
				okRedeem = true
			} else {
				return false
			}
		}
	}
	if !anyRedeem {
		// nothing is ever put into this pool (recycling switched off for it): Get only yields what New allocates —
		// the asserted type must be the one the borrow function returns
		res := top.Signature.Results()
		return res.Len() == 1 && types.Identical(res.At(0).Type(), ta.AssertedType)
	}
	return okRedeem
}

// ExpandFirst — C07: the documented panic of newSchemaValidator (schema whose $ref cannot be expanded)
// must be unreachable from spec validation. Every call of newSchemaValidator in the spec-validation
// files passes either the Swagger meta-schema (the validator's own schema or a clone of one of its
// definitions — constant data whose references resolve), a schema of a response that ExpandResponse just
// expanded successfully, or an object on which a dominating spec.ExpandSchema call succeeded.
func ExpandFirst(p *core.Prog, r *core.Report) {
	const rule = "EXPAND-FIRST"
	scope := specScope(p)
	n := 0
	for _, f := range p.Funcs {
		if !scope[f] {
			continue
		}
		fn := core.FuncName(f)
		core.EachInstr(f, func(i ssa.Instruction) {
			c, ok := i.(*ssa.Call)
			if !ok {
				return
			}
			g := core.StaticCallee(c)
			if g == nil || core.FuncName(g) != "newSchemaValidator" {
				return
			}
			n++
			arg := c.Call.Args[0]
			key := fn + ":newSchemaValidator(" + opDesc(arg, 0) + ")"
			// (1) meta-schema
			if d := opDesc(arg, 0); strings.HasPrefix(d, "recv.schema") {
				r.OK(rule, key, p.Pos(c.Pos()), "the validator's own Swagger meta-schema")
				return
			}
			if al, isAl := arg.(*ssa.Alloc); isAl {
				meta := false
				for _, ref := range core.Refs(al) {
					if st, isSt := ref.(*ssa.Store); isSt && st.Addr == ssa.Value(al) {
						if ex, isEx := st.Val.(*ssa.Extract); isEx {
							if cc, isC := ex.Tuple.(*ssa.Call); isC {
								if cg := core.StaticCallee(cc); cg != nil && core.BaseName(cg) == "deepCloneSchema" && strings.Contains(opDesc(cc.Call.Args[0], 0), "recv.schema") {
									meta = true
								}
							}
						}
					}
				}
				if meta {
					r.OK(rule, key, p.Pos(c.Pos()), "a clone of a definition of the Swagger meta-schema")
					return
				}
			}
			// (the schema of a response that spec.ExpandResponse expanded without error used to be accepted here: it is
			// not enough — a schema carrying an `id` is expanded again by the validator, against another base)
			// (3) a dominating successful ExpandSchema on the same object
			okExp := false
			core.EachInstr(f, func(j ssa.Instruction) {
				ec, isC := j.(*ssa.Call)
				if !isC || !core.InstrDominates(ec, c) {
					return
				}
				if eg := core.StaticCallee(ec); eg != nil && core.QualName(eg) == "spec.ExpandSchema" && ec.Call.Args[0] == arg && errIsNilAt(c.Block(), ec) {
					okExp = true
				}
			})
			if okExp {
				r.OK(rule, key, p.Pos(c.Pos()), "dominated by a successful spec.ExpandSchema of the same object")
				return
			}
			// (4) guarded by a resolvability predicate applied to the same schema (or to the schema this local copy was taken from)
			for _, cd := range core.CondsAt(c.Block()) {
				gc, isC := cd.Value.(*ssa.Call)
				if !isC || !cd.Sense {
					continue
				}
				h := core.StaticCallee(gc)
				if h == nil || !resolvabilityPredicate(h) || len(gc.Call.Args) == 0 {
					continue
				}
				probed := gc.Call.Args[len(gc.Call.Args)-1]
				same := probed == arg
				if pa, okA := core.Path(probed); okA {
					if pb, okB := core.Path(arg); okB && pa == pb && !strings.Contains(pa, "?") {
						same = true // two loads of the same field of the same object
					}
				}
				if al, isAl := arg.(*ssa.Alloc); isAl {
					for _, ref := range core.Refs(al) {
						if st, isSt := ref.(*ssa.Store); isSt && st.Addr == ssa.Value(al) {
							if ld, isLd := st.Val.(*ssa.UnOp); isLd && ld.X == probed {
								same = true
							}
						}
					}
				}
				if same {
					r.OK(rule, key, p.Pos(c.Pos()), "guarded by "+core.FuncName(h)+": a clone of this very schema was expanded, the way the validator will, without error")
					return
				}
			}
			r.Bad(rule, key, p.Pos(c.Pos()), "a schema taken from the validated document is handed to newSchemaValidator, which panics when a $ref in it (or, lazily, below it) cannot be resolved; nothing on this path established that its references resolve (reachable with continue-on-errors after the references rule failed)")
		})
	}
	r.Count("spec_schema_validator_sites", n)
	r.Floor("spec_schema_validator_sites", 4)
}

// resolvabilityPredicate: a boolean function of one schema that answers true only when the validator holds a
// fully expanded copy of the document (all references resolve) or when spec.ExpandSchema of a clone of its
// argument returned no error.
func resolvabilityPredicate(h *ssa.Function) bool {
	if len(h.Blocks) == 0 || h.Signature.Results().Len() != 1 {
		return false
	}
	if b, ok := h.Signature.Results().At(0).Type().Underlying().(*types.Basic); !ok || b.Kind() != types.Bool {
		return false
	}
	var expand *ssa.Call
	core.EachInstr(h, func(i ssa.Instruction) {
		if c, ok := i.(*ssa.Call); ok {
			if g := core.StaticCallee(c); g != nil {
				if core.QualName(g) == "spec.ExpandSchema" {
					expand = c
				} else if _, _, isW := expandWrapper(g); isW {
					expand = c // spec.ExpandSchema behind a thin wrapper (a panic boundary)
				}
			}
		}
	})
	if expand == nil {
		return false
	}
	// the expanded object is a local clone
	if _, isLocal := expand.Call.Args[0].(*ssa.Alloc); !isLocal {
		return false
	}
	for _, b := range h.Blocks {
		ret, ok := b.Instrs[len(b.Instrs)-1].(*ssa.Return)
		if !ok {
			continue
		}
		switch v := ret.Results[0].(type) {
		case *ssa.Const:
			if v.Value != nil && v.Value.ExactString() == "true" {
				// "the document expanded as a whole" does not imply that this schema expands on its own against the
				// specification (references into other files, `id` re-basing): the predicate must probe
				return false
			}
		case *ssa.BinOp:
			if !(v.Op == token.EQL && v.X == ssa.Value(expand) && core.IsNilConst(v.Y)) {
				return false
			}
		default:
			return false
		}
	}
	return true
}

// holdsInterface: values of this type are compared through interface equality somewhere inside.
func holdsInterface(t types.Type, d int) bool {
	if d > 5 {
		return false
	}
	switch u := t.Underlying().(type) {
	case *types.Interface:
		return true
	case *types.Struct:
		for i := 0; i < u.NumFields(); i++ {
			if holdsInterface(u.Field(i).Type(), d+1) {
				return true
			}
		}
	case *types.Array:
		return holdsInterface(u.Elem(), d+1)
	}
	return false
}

// comparableSide: the value cannot carry an uncomparable dynamic type.
func comparableSide(v ssa.Value) bool {
	switch x := v.(type) {
	case *ssa.Const:
		return true
	case *ssa.MakeInterface:
		return types.Comparable(x.X.Type()) && !holdsInterface(x.X.Type(), 0)
	case *ssa.UnOp:
		// an untouched zero value of a local (simpleZero := T{})
		if al, ok := x.X.(*ssa.Alloc); ok {
			for _, ref := range core.Refs(al) {
				switch u := ref.(type) {
				case *ssa.Store:
					if u.Addr == ssa.Value(al) {
						return false
					}
				case *ssa.FieldAddr, *ssa.IndexAddr:
					for _, r2 := range core.Refs(u.(ssa.Value)) {
						if _, isSt := r2.(*ssa.Store); isSt {
							return false
						}
					}
				case *ssa.UnOp, *ssa.DebugRef:
				default:
					return false
				}
			}
			return true
		}
	case *ssa.Call:
		// error values and operationType strings produced by the package/stdlib are comparable
		if it, ok := x.Type().Underlying().(*types.Interface); ok && it.NumMethods() > 0 {
			return true
		}
	}
	if it, ok := v.Type().Underlying().(*types.Interface); ok && it.NumMethods() > 0 {
		// non-empty interfaces here (error, reflect.Type, validators) are implemented by pointer / comparable types
		return true
	}
	return false
}

// reachableRefined: call-graph reachability where an interface call on a child validator taken from a
// slot only dispatches to the concrete types the parent's constructor puts in that slot (SLOT-INIT).
func reachableRefined(p *core.Prog, cg *core.CallGraph, entries []string) map[*ssa.Function]bool {
	na := newNilAn(p)
	seen := map[*ssa.Function]bool{}
	var work []*ssa.Function
	for _, e := range entries {
		if f := p.Func(e); f != nil && !seen[f] {
			seen[f] = true
			work = append(work, f)
		}
	}
	add := func(g *ssa.Function) {
		if g != nil && p.InSubject(g) && !seen[g] {
			seen[g] = true
			work = append(work, g)
		}
	}
	for len(work) > 0 {
		f := work[len(work)-1]
		work = work[:len(work)-1]
		// static edges, closures and function values from the CHA graph, minus its by-name interface edges
		core.EachInstr(f, func(i ssa.Instruction) {
			switch x := i.(type) {
			case *ssa.MakeClosure:
				if g, ok := x.Fn.(*ssa.Function); ok {
					add(g)
				}
			case ssa.CallInstruction:
				cc := x.Common()
				if cc.IsInvoke() {
					for _, g := range na.implsFor(cc) {
						add(g)
					}
					return
				}
				if g := cc.StaticCallee(); g != nil {
					add(g)
					return
				}
				if _, isB := cc.Value.(*ssa.Builtin); isB {
					return
				}
				// dynamic call of a function value: fall back to the CHA targets
				for _, g := range cg.Out[f] {
					if g.Parent() != nil || g.Signature.Recv() == nil {
						if types.Identical(g.Signature.Params(), cc.Signature().Params()) && types.Identical(g.Signature.Results(), cc.Signature().Results()) {
							add(g)
						}
					}
				}
			}
			for _, op := range i.Operands(nil) {
				if op != nil && *op != nil {
					if g, ok := (*op).(*ssa.Function); ok {
						add(g)
					}
				}
			}
		})
	}
	return seen
}

// CTOR-RECURSION — validators are built eagerly: the constructor of a schema validator builds the validators of
// its allOf / anyOf / oneOf / not members, which build theirs. Such a recursion takes no part of the instance, so
// only the schema can bound it; when the same recursion also resolves `$ref`s on the way (spec.ExpandSchema inside
// the cycle, which leaves a circular reference in place), a reference cycle that passes through a composition
// keyword is unfolded for ever: not the documented panic but an unrecoverable stack overflow, for a schema whose
// references all resolve.
func CtorRecursion(p *core.Prog, r *core.Report) {
	const rule = "CTOR-RECURSION"
	cg := core.BuildCallGraph(p)
	// datum-free functions: no interface-typed parameter (constructors take schemas, paths, registries, options —
	// the registry is an interface: allow interfaces whose type is named)
	datumFree := func(f *ssa.Function) bool {
		for _, prm := range f.Params {
			if it, ok := prm.Type().Underlying().(*types.Interface); ok && it.NumMethods() == 0 {
				if _, named := prm.Type().(*types.Named); !named && prm.Name() != "rootSchema" && prm.Name() != "root" {
					return false
				}
			}
		}
		return true
	}
	// SCCs by simple reachability (the graph is small)
	reach := func(from *ssa.Function) map[*ssa.Function]bool {
		seen := map[*ssa.Function]bool{}
		var walk func(f *ssa.Function)
		walk = func(f *ssa.Function) {
			for _, g := range cg.Out[f] {
				if !seen[g] && datumFree(g) {
					seen[g] = true
					walk(g)
				}
			}
		}
		walk(from)
		return seen
	}
	n := 0
	for _, f := range p.Funcs {
		if f.Parent() != nil || !datumFree(f) || !strings.HasPrefix(f.Name(), "new") {
			continue
		}
		rs := reach(f)
		if !rs[f] {
			continue
		}
		// one report per cycle: keyed by its first member in name order
		first := core.FuncName(f)
		for g := range rs {
			if reach(g)[f] && strings.HasPrefix(g.Name(), "new") && g.Parent() == nil && core.FuncName(g) < first {
				first = core.FuncName(g)
			}
		}
		if first != core.FuncName(f) {
			continue
		}
		n++
		// does the cycle resolve references on the way?
		expands := ""
		for g := range rs {
			if !reach(g)[f] {
				continue // not on the cycle
			}
			core.EachInstr(g, func(i ssa.Instruction) {
				if c, ok := i.(ssa.CallInstruction); ok {
					if h := core.StaticCallee(c); h != nil && strings.HasPrefix(core.QualName(h), "spec.Expand") {
						expands = p.Pos(c.Pos())
					}
				}
			})
		}
		key := "cycle:" + core.FuncName(f)
		if expands != "" {
			r.Bad(rule, key, p.Pos(f.Pos()), core.FuncName(f)+" is on a cycle of constructors that consumes nothing of the instance and resolves references on the way ("+expands+"): a $ref cycle through allOf/anyOf/oneOf/not — {\"definitions\":{\"a\":{\"anyOf\":[{\"type\":\"integer\"},{\"$ref\":\"#/definitions/a\"}]}},\"properties\":{\"x\":{\"$ref\":\"#/definitions/a\"}}}, a well-founded schema — is unfolded without end: fatal stack overflow instead of a result")
		} else {
			r.OK(rule, key, p.Pos(f.Pos()), "the constructor cycle is bounded by the (already expanded) schema")
		}
	}
	r.Count("constructor_cycles", n)
	r.Floor("constructor_cycles", 1)
}

// expandWrapper: g does nothing but call spec.ExpandSchema on two of its own parameters (the schema and the root)
// and return its error — possibly behind a deferred recover. Returns the positions of those parameters.
func expandWrapper(g *ssa.Function) (schemaIdx, rootIdx int, ok bool) {
	if g == nil || len(g.Blocks) == 0 || g.Signature.Results().Len() != 1 || g.Signature.Results().At(0).Type().String() != "error" {
		return 0, 0, false
	}
	n := 0
	schemaIdx, rootIdx = -1, -1
	core.EachInstr(g, func(i ssa.Instruction) {
		c, isC := i.(*ssa.Call)
		if !isC {
			return
		}
		h := core.StaticCallee(c)
		if h == nil {
			n += 2 // an unknown call: not a thin wrapper
			return
		}
		if core.QualName(h) != "spec.ExpandSchema" {
			n += 2
			return
		}
		n++
		for k, prm := range g.Params {
			if len(c.Call.Args) > 0 && c.Call.Args[0] == ssa.Value(prm) {
				schemaIdx = k
			}
			if len(c.Call.Args) > 1 {
				a := c.Call.Args[1]
				if mi, isMI := a.(*ssa.MakeInterface); isMI {
					a = mi.X
				}
				if a == ssa.Value(prm) {
					rootIdx = k
				}
			}
		}
	})
	return schemaIdx, rootIdx, n == 1 && schemaIdx >= 0 && rootIdx >= 0
}
