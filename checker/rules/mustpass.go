package rules

import (
	"go/token"
	"strings"

	"golang.org/x/tools/go/ssa"

	"verifchk/core"
)

// MUST-PASS — the schema pass over the raw document is unconditional and its errors decide the verdict (C02).
func MustPass(p *core.Prog, r *core.Report) {
	const rule = "MUST-PASS"
	f := p.Func("(*SpecValidator).Validate")
	if f == nil {
		r.Unk(rule, "anchor", "-", "(*SpecValidator).Validate not found")
		return
	}
	recv := f.Params[0]
	fieldLoad := func(v ssa.Value, name string) bool {
		ld, ok := v.(*ssa.UnOp)
		if !ok || ld.Op != token.MUL {
			return false
		}
		fa, ok := ld.X.(*ssa.FieldAddr)
		if !ok || fa.X != ssa.Value(recv) {
			return false
		}
		_, fn, _ := core.FieldOf(fa)
		return fn == name
	}
	// 1. the schema pass
	var pass *ssa.Call // (*SchemaValidator).Validate(newSchemaValidator(s.schema,...,s.schemaOptions), obj)
	var objCell *ssa.Alloc
	core.EachInstr(f, func(i ssa.Instruction) {
		c, ok := i.(*ssa.Call)
		if !ok {
			return
		}
		g := core.StaticCallee(c)
		if g == nil || core.FuncName(g) != "(*SchemaValidator).Validate" {
			return
		}
		ctor, ok := c.Call.Args[0].(*ssa.Call)
		if !ok {
			return
		}
		cg := core.StaticCallee(ctor)
		if cg == nil || core.FuncName(cg) != "newSchemaValidator" {
			return
		}
		if !fieldLoad(ctor.Call.Args[0], "schema") {
			r.Bad(rule, "schema-pass:schema", p.Pos(ctor.Pos()), "the schema pass does not use the validator's Swagger schema")
			return
		}
		if !fieldLoad(ctor.Call.Args[4], "schemaOptions") {
			r.Bad(rule, "schema-pass:options", p.Pos(ctor.Pos()), "the schema pass does not use the Swagger-strict schema options of the validator")
			return
		}
		if cell := cellOf(c.Call.Args[1]); cell != nil {
			objCell = cell
			pass = c
		}
	})
	if pass == nil {
		r.Bad(rule, "schema-pass", p.Pos(f.Pos()), "no validation of the raw document against the validator's Swagger schema in Validate")
		return
	}
	r.OK(rule, "schema-pass", p.Pos(pass.Pos()), "newSchemaValidator(s.schema, nil, \"\", s.KnownFormats, s.schemaOptions).Validate(obj)")
	// obj is what json.Unmarshal(sd.Raw(), &obj) produced
	okRaw := false
	core.EachInstr(f, func(i ssa.Instruction) {
		c, ok := core.IsCallTo(i, "json.Unmarshal")
		if !ok {
			return
		}
		args := c.Common().Args
		mi, ok := args[1].(*ssa.MakeInterface)
		if !ok || mi.X != ssa.Value(objCell) {
			return
		}
		src := args[0]
		if ct, ok := src.(*ssa.ChangeType); ok {
			src = ct.X
		}
		if rc, ok := src.(*ssa.Call); ok {
			if g := core.StaticCallee(rc); g != nil && core.QualName(g) == "(*loads.Document).Raw" && core.InstrDominates(c.(ssa.Instruction), pass) {
				okRaw = true
			}
		}
	})
	if okRaw {
		r.OK(rule, "schema-pass:raw-document", p.Pos(pass.Pos()), "the validated value is the decoding of doc.Raw()")
	} else {
		r.Bad(rule, "schema-pass:raw-document", p.Pos(pass.Pos()), "the value given to the schema pass is not the decoding of the raw document bytes")
	}
	// 2. it runs before any other rule and on every path that yields a verdict (RULE-SEQ checks merging)
	okFirst := true
	core.EachInstr(f, func(i ssa.Instruction) {
		c, ok := i.(*ssa.Call)
		if !ok || c == pass {
			return
		}
		g := core.StaticCallee(c)
		if g == nil || !p.InSubject(g) || g.Signature.Results().Len() != 1 || !isResultPtr(g.Signature.Results().At(0).Type()) || (g.Signature.Recv() != nil && isResultPtr(g.Signature.Recv().Type())) {
			return
		}
		if !core.InstrDominates(pass, c) {
			okFirst = false
		}
	})
	for _, b := range f.Blocks {
		if ret, ok := b.Instrs[len(b.Instrs)-1].(*ssa.Return); ok && b != f.Recover {
			if !core.InstrDominates(pass, ret) {
				// only the not-a-document return may precede
				isInvalidDoc := false
				for _, c := range core.CondsAt(b) {
					if bo, ok := c.Value.(*ssa.BinOp); ok && bo.Op == token.EQL && c.Sense && core.IsNilConst(bo.Y) && strings.Contains(bo.X.Type().String(), "loads.Document") {
						isInvalidDoc = true
					}
				}
				if !isInvalidDoc {
					okFirst = false
					r.Bad(rule, "schema-pass:unconditional", p.Pos(posOf(ret, f)), "Validate can return a verdict without having run the schema pass")
				}
			}
		}
	}
	if okFirst {
		r.OK(rule, "schema-pass:unconditional", p.Pos(pass.Pos()), "the schema pass dominates every other rule and every verdict-returning exit")
	}
	// 3. Swagger strictness switched on at construction
	if nf := p.Func("NewSpecValidator"); nf != nil {
		okOpt := false
		core.EachInstr(nf, func(i ssa.Instruction) {
			c, ok := i.(*ssa.Call)
			if !ok {
				return
			}
			if g := core.StaticCallee(c); g != nil && g.Name() == "SwaggerSchema" {
				if k, ok := c.Call.Args[0].(*ssa.Const); ok && k.Value != nil && k.Value.ExactString() == "true" {
					okOpt = true
				}
			}
		})
		applied := false
		core.EachInstr(nf, func(i ssa.Instruction) {
			c, ok := i.(*ssa.Call)
			if !ok || core.StaticCallee(c) != nil {
				return
			}
			if _, isB := c.Call.Value.(*ssa.Builtin); isB {
				return
			}
			// o(schemaOptions): the argument must be the object stored in the schemaOptions field
			if len(c.Call.Args) == 1 {
				arg := c.Call.Args[0]
				core.EachInstr(nf, func(j ssa.Instruction) {
					if st, ok := j.(*ssa.Store); ok && st.Val == arg {
						if fa, ok := st.Addr.(*ssa.FieldAddr); ok {
							_, fn, _ := core.FieldOf(fa)
							if fn == "schemaOptions" {
								applied = true
							}
						}
					}
				})
			}
		})
		if okOpt && applied {
			r.OK(rule, "swagger-strictness", p.Pos(nf.Pos()), "NewSpecValidator applies SwaggerSchema(true) to the options object stored in schemaOptions")
		} else {
			r.Bad(rule, "swagger-strictness", p.Pos(nf.Pos()), "the Swagger-specific strictness options (array must have items, items only in arrays) are no longer switched on for the schema pass")
		}
	}
	if sf := p.Func("SwaggerSchema$1"); sf != nil {
		set := map[string]bool{}
		core.EachInstr(sf, func(i ssa.Instruction) {
			if st, ok := i.(*ssa.Store); ok {
				if fa, ok := st.Addr.(*ssa.FieldAddr); ok {
					if ld, ok := st.Val.(*ssa.UnOp); ok {
						if _, isFV := ld.X.(*ssa.FreeVar); isFV {
							_, fn, _ := core.FieldOf(fa)
							set[fn] = true
						}
					}
					if _, isFV := st.Val.(*ssa.FreeVar); isFV {
						_, fn, _ := core.FieldOf(fa)
						set[fn] = true
					}
				}
			}
		})
		if set["EnableObjectArrayTypeCheck"] && set["EnableArrayMustHaveItemsCheck"] {
			r.OK(rule, "swagger-strictness:both", p.Pos(sf.Pos()), "SwaggerSchema sets both strictness flags from its argument")
		} else {
			r.Bad(rule, "swagger-strictness:both", p.Pos(sf.Pos()), "SwaggerSchema no longer sets both strictness flags")
		}
	}
	// 4. Spec(): verdict is errs.HasErrors()
	if sp := p.Func("Spec"); sp != nil {
		ok := false
		for _, b := range sp.Blocks {
			ret, isRet := b.Instrs[len(b.Instrs)-1].(*ssa.Return)
			if !isRet {
				continue
			}
			if core.IsNilConst(ret.Results[0]) {
				// the nil return must be on the !HasErrors edge
				for _, c := range core.CondsAt(b) {
					if call, isC := c.Value.(*ssa.Call); isC && !c.Sense {
						if g := core.StaticCallee(call); g != nil && core.FuncName(g) == "(*Result).HasErrors" {
							if ex, isE := call.Call.Args[0].(*ssa.Extract); isE && ex.Index == 0 {
								if vc, isVC := ex.Tuple.(*ssa.Call); isVC {
									if vg := core.StaticCallee(vc); vg != nil && core.FuncName(vg) == "(*SpecValidator).Validate" {
										ok = true
									}
								}
							}
						}
					}
				}
			}
		}
		if ok {
			r.OK(rule, "Spec:verdict", p.Pos(sp.Pos()), "Spec returns nil exactly on the !errs.HasErrors() edge of the main result of Validate")
		} else {
			r.Bad(rule, "Spec:verdict", p.Pos(sp.Pos()), "Spec's nil return is not tied to the absence of errors in the main result")
		}
	}
	// 5. re-validation of every expanded parameter against #/definitions/parameter
	if vp := p.Func("(*SpecValidator).validateParameters"); vp != nil {
		ok := false
		core.EachInstr(vp, func(i ssa.Instruction) {
			c, isC := i.(*ssa.Call)
			if !isC {
				return
			}
			g := core.StaticCallee(c)
			if g == nil || core.FuncName(g) != "(*SchemaValidator).Validate" {
				return
			}
			m, _, _ := mergedInto(c)
			arg, isCall := c.Call.Args[1].(*ssa.Call)
			if m == "Merge" && isCall {
				if ag := core.StaticCallee(arg); ag != nil && core.QualName(ag) == "swag.ToDynamicJSON" {
					ok = true
				}
			}
		})
		if ok {
			r.OK(rule, "parameter-revalidation", p.Pos(vp.Pos()), "each expanded parameter is re-validated (ToDynamicJSON) and the result merged")
		} else {
			r.Bad(rule, "parameter-revalidation", p.Pos(vp.Pos()), "expanded parameters are no longer re-validated against the parameter definition of the Swagger schema")
		}
	}
}
