// vchk decides the structural clauses of the properties in /verif/properties.jsonl by static
// analysis of /repo's current working tree (go/packages + go/ssa). Nothing of the subject is executed.
package main

import (
	"encoding/json"
	"flag"
	"fmt"
	"os"
	"sort"
	"strconv"
	"strings"
	"time"

	"verifchk/core"
	"verifchk/rules"
)

func main() {
	repo := flag.String("repo", "/repo", "subject repository (working tree is analysed as it is)")
	verif := flag.String("verif", "/verif", "verification directory (evidence, known findings)")
	tier := flag.String("tier", "quick", "quick|thorough")
	only := flag.String("only", "", "replay: re-evaluate and print only the obligation with this key (no evidence written)")
	mkAnchors := flag.Bool("mkanchors", false, "record the functions of the current tree in tables/anchors.json and exit")
	keysOnly := flag.Bool("keys", false, "print the keys of violated/undecided obligations as JSON and exit (no evidence written)")
	flag.Parse()
	if *mkAnchors {
		p, err := core.Load(*repo, "")
		if err != nil {
			fmt.Println(err)
			os.Exit(2)
		}
		if err := core.WriteAnchors(p, *verif+"/tables/anchors.json"); err != nil {
			fmt.Println(err)
			os.Exit(2)
		}
		fmt.Println("anchors recorded:", len(p.Funcs), "functions")
		return
	}
	if flag.NArg() < 1 {
		fmt.Println("usage: vchk [flags] <property-id>")
		os.Exit(2)
	}
	id := flag.Arg(0)
	seed, _ := strconv.Atoi(os.Getenv("VERIF_SEED"))
	start := time.Now()
	spec, ok := rules.Properties[id]
	if !ok {
		fmt.Println("unknown property", id)
		os.Exit(2)
	}
	known, err := core.LoadKnown(*verif + "/known_findings.json")
	if err != nil {
		fmt.Println("known_findings.json:", err)
		os.Exit(2)
	}
	rep := core.NewReport()
	rules.Deep = *tier == "thorough"
	configs := []string{""}
	if *tier == "thorough" && spec.DebugConfigToo {
		configs = append(configs, "validatedebug")
	}
	func() {
		defer func() {
			if e := recover(); e != nil {
				rep.Unk("ANALYSIS", "panic", "-", fmt.Sprintf("analysis panicked: %v", e))
				if os.Getenv("VCHK_DEBUG") != "" {
					panic(e)
				}
			}
		}()
		for _, tags := range configs {
			p, err := core.Load(*repo, tags)
			if err != nil {
				rep.Unk("LOAD", "load:"+tags, "-", "cannot load/type-check the subject: "+err.Error())
				continue
			}
			for _, n := range p.ApplyAnchors(*verif + "/tables/anchors.json") {
				rep.Note("anchor: %s", n)
			}
			rules.ResolveOptionFields(p)
			rep.SetConfig(tags)
			rep.Note("config tags=%q: %d packages, %d functions with bodies", tags, len(p.Pkgs), len(p.Funcs))
			for _, rl := range spec.Rules {
				rl(p, rep)
			}
		}
		rep.SetConfig("")
	}()
	rules.ApplyDomain(spec, rep)
	if *keysOnly {
		var ks []string
		for _, o := range rep.Obls {
			if o.Status != core.Discharged {
				ks = append(ks, o.Key)
			}
		}
		// floors are part of the verdict (Finish turns them into obligations): list the ones that fail
		for name, min := range rep.Floors {
			if rep.Counts[name] < min {
				ks = append(ks, "FLOOR:"+name)
			}
		}
		sort.Strings(ks)
		b, _ := json.Marshal(ks)
		fmt.Println(string(b))
		os.Exit(0)
	}
	if *tier == "quick" || *tier == "thorough" {
		rules.Controls(id, *repo, *verif, *tier, rep)
	}
	if *only != "" {
		code := 0
		n := 0
		for _, o := range rep.Obls {
			if o.Key == *only {
				n++
				fmt.Printf("%s: [%s] %s %s (config %q)\n   %s%s\n", o.Pos, o.Rule, strings.ToUpper(string(o.Status)), o.Key, o.Config, o.By, o.Detail)
				if o.Status != core.Discharged {
					code = 1
					fmt.Printf("VIOLATION property=%s replay=%s\n", id, "(replayed)")
				}
			}
		}
		if n == 0 {
			fmt.Println("no obligation with that key exists on the current tree (the construct is gone or was renamed)")
		}
		os.Exit(code)
	}
	if *tier == "thorough" {
		rules.Thorough(id, *repo, *verif, rep)
	}
	m := core.Meta{
		Property: id, Tier: *tier, Seed: seed, VerifDir: *verif,
		Explanation: spec.Explanation, NotDecided: spec.NotDecided,
		Assumptions: spec.Assumptions,
		Trusted:     []string{"go/types, go/ssa (golang.org/x/tools v0.29.0)", "go toolchain parsing of /repo's working tree", "summary tables for dependencies written from reading the pinned module versions"},
		CheckerCmd:  "vchk " + strings.Join(os.Args[1:], " "),
		Start:       start,
	}
	os.Exit(rep.Finish(m, known))
}
