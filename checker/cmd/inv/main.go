package main

import (
	"fmt"
	"go/token"
	"go/types"
	"sort"

	"golang.org/x/tools/go/ssa"

	"verifchk/core"
)

func main() {
	p, err := core.Load("/repo", "")
	if err != nil {
		panic(err)
	}
	cnt := map[string]int{}
	ext := map[string]int{}
	for _, f := range p.Funcs {
		core.EachInstr(f, func(i ssa.Instruction) {
			switch x := i.(type) {
			case *ssa.TypeAssert:
				if !x.CommaOk {
					cnt["typeassert-unchecked"]++
					fmt.Println("TA", p.Pos(x.Pos()), core.FuncName(f), x.AssertedType)
				}
			case *ssa.Panic:
				cnt["panic"]++
				fmt.Println("PANIC", p.Pos(x.Pos()), core.FuncName(f))
			case *ssa.Index:
				cnt["index"]++
			case *ssa.IndexAddr:
				if _, ok := x.X.Type().Underlying().(*types.Slice); ok {
					if _, isC := x.Index.(*ssa.Const); !isC {
						cnt["indexaddr-slice-var"]++
					} else {
						cnt["indexaddr-slice-const"]++
						fmt.Println("IDXCONST", p.Pos(x.Pos()), core.FuncName(f), x)
					}
				} else {
					cnt["indexaddr-array"]++
				}
			case *ssa.Slice:
				cnt["slice-op"]++
			case *ssa.BinOp:
				if x.Op == token.QUO || x.Op == token.REM {
					if b, ok := x.X.Type().Underlying().(*types.Basic); ok && b.Info()&types.IsInteger != 0 {
						cnt["int-div"]++
						fmt.Println("DIV", p.Pos(x.Pos()), core.FuncName(f))
					}
				}
			case *ssa.MapUpdate:
				cnt["mapupdate"]++
			case *ssa.Lookup:
				cnt["lookup"]++
			case *ssa.Convert:
				cnt["convert"]++
			case ssa.CallInstruction:
				cc := x.Common()
				if cc.IsInvoke() {
					cnt["invoke"]++
					ext["invoke "+core.TypeName(cc.Value.Type())+"."+cc.Method.Name()]++
					return
				}
				g := cc.StaticCallee()
				if g == nil {
					if _, ok := cc.Value.(*ssa.Builtin); !ok {
						cnt["dynamic-call"]++
						fmt.Println("DYN", p.Pos(i.Pos()), core.FuncName(f))
					}
					return
				}
				if !p.InSubject(g) {
					ext[core.QualName(g)]++
				}
			}
		})
	}
	fmt.Println(cnt)
	var ks []string
	for k := range ext {
		ks = append(ks, k)
	}
	sort.Strings(ks)
	for _, k := range ks {
		fmt.Println(ext[k], k)
	}
}
