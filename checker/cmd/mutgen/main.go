// mutgen enumerates small syntactic mutations of the subject's non-test sources (operator swaps, negated
// conditions, dropped statements, literal changes, swapped arguments). It is tooling for measuring the checker
// (tools/mutation_survey.py): it prints one JSON object per mutation — file, byte range, replacement — and
// changes nothing. Nothing of the subject is executed here.
package main

import (
	"encoding/json"
	"flag"
	"fmt"
	"go/ast"
	"go/parser"
	"go/token"
	"os"
	"path/filepath"
	"go/importer"
	"go/types"
	"sort"
	"strings"

	"golang.org/x/tools/go/packages"
)

type mut struct {
	File  string `json:"file"`
	Line  int    `json:"line"`
	Func  string `json:"func"`
	Kind  string `json:"kind"`
	Start int    `json:"start"`
	End   int    `json:"end"`
	New   string `json:"new"`
	Old   string `json:"old"`
}

var swaps = map[token.Token][]token.Token{
	token.LSS: {token.LEQ}, token.LEQ: {token.LSS}, token.GTR: {token.GEQ}, token.GEQ: {token.GTR},
	token.EQL: {token.NEQ}, token.NEQ: {token.EQL}, token.LAND: {token.LOR}, token.LOR: {token.LAND},
	token.ADD: {token.SUB}, token.SUB: {token.ADD},
}

func main() {
	repo := flag.String("repo", "/repo", "subject")
	mode := flag.String("mode", "token", "token: operator / statement mutations; sibling: an identifier replaced by its sibling (copy-paste slips)")
	check := flag.Bool("typecheck", false, "emit only mutations after which the package still type-checks (go/types, in process)")
	flag.Parse()
	var tc *typeChecker
	if *check {
		tc = newTypeChecker(*repo)
	}
	var files []string
	for _, d := range []string{"", "post"} {
		m, _ := filepath.Glob(filepath.Join(*repo, d, "*.go"))
		for _, f := range m {
			if !strings.HasSuffix(f, "_test.go") {
				files = append(files, f)
			}
		}
	}
	sort.Strings(files)
	enc := json.NewEncoder(os.Stdout)
	for _, path := range files {
		src, err := os.ReadFile(path)
		if err != nil {
			panic(err)
		}
		fset := token.NewFileSet()
		f, err := parser.ParseFile(fset, path, src, 0)
		if err != nil {
			panic(err)
		}
		rel, _ := filepath.Rel(*repo, path)
		off := func(p token.Pos) int { return fset.Position(p).Offset }
		for _, decl := range f.Decls {
			fd, ok := decl.(*ast.FuncDecl)
			if !ok || fd.Body == nil {
				continue
			}
			name := fd.Name.Name
			if fd.Recv != nil && len(fd.Recv.List) == 1 {
				t := fd.Recv.List[0].Type
				if s, ok := t.(*ast.StarExpr); ok {
					t = s.X
				}
				if id, ok := t.(*ast.Ident); ok {
					name = id.Name + "." + name
				}
			}
			emit := func(kind string, s, e int, repl string) {
				wantMode := "token"
				switch {
				case strings.HasPrefix(kind, "sibling:"):
					wantMode = "sibling"
				case strings.HasPrefix(kind, "block:"):
					wantMode = "block"
				}
				if *mode != wantMode {
					return
				}
				if tc != nil && !tc.ok(path, src, s, e, repl) {
					return
				}
				_ = enc.Encode(mut{File: rel, Line: lineOf(src, s), Func: name, Kind: kind, Start: s, End: e, New: repl, Old: string(src[s:e])})
			}
			ast.Inspect(fd.Body, func(n ast.Node) bool {
				switch x := n.(type) {
				case *ast.BinaryExpr:
					for _, to := range swaps[x.Op] {
						if x.Op == token.ADD || x.Op == token.SUB {
							// skip string concatenations of literals (messages)
							if isStr(x.X) || isStr(x.Y) {
								continue
							}
						}
						s := off(x.OpPos)
						emit("binop:"+x.Op.String()+"->"+to.String(), s, s+len(x.Op.String()), to.String())
					}
				case *ast.IfStmt:
					s, e := off(x.Cond.Pos()), off(x.Cond.End())
					emit("negate-if", s, e, "!("+string(src[s:e])+")")
					// a check that was forgotten: the whole statement gone (only without else and without init)
					if x.Else == nil && x.Init == nil {
						emit("block:drop-if", off(x.Pos()), off(x.End()), "")
						// … or a check that always fires: the body made unconditional
						emit("block:if-always", off(x.Pos()), off(x.Body.Lbrace), "")
					}
					if x.Else != nil {
						// the else branch forgotten
						emit("block:drop-else", off(x.Body.Rbrace)+1, off(x.Else.End()), "")
					}
				case *ast.CaseClause:
					if len(x.List) > 0 {
						emit("block:drop-case", off(x.Pos()), off(x.End()), "")
					}
					if len(x.List) > 1 {
						for k := range x.List {
							// one alternative of the case list forgotten
							var parts []string
							for j, e := range x.List {
								if j != k {
									parts = append(parts, string(src[off(e.Pos()):off(e.End())]))
								}
							}
							emit("block:drop-case-alt", off(x.List[0].Pos()), off(x.List[len(x.List)-1].End()), strings.Join(parts, ", "))
						}
					}
				case *ast.ReturnStmt:
					_ = x
				case *ast.RangeStmt:
					// the loop body run for the first element only
					if len(x.Body.List) > 0 {
						emit("block:loop-once", off(x.Body.Rbrace), off(x.Body.Rbrace), "break\n")
					}
				case *ast.ForStmt:
					if len(x.Body.List) > 0 {
						emit("block:loop-once", off(x.Body.Rbrace), off(x.Body.Rbrace), "break\n")
					}
				case *ast.UnaryExpr:
					if x.Op == token.NOT {
						s := off(x.OpPos)
						emit("drop-not", s, s+1, "")
					}
				case *ast.ExprStmt:
					if _, ok := x.X.(*ast.CallExpr); ok {
						emit("drop-call", off(x.Pos()), off(x.End()), "")
					}
				case *ast.DeferStmt:
					emit("drop-defer", off(x.Pos()), off(x.End()), "")
				case *ast.BranchStmt:
					if x.Label == nil && (x.Tok == token.CONTINUE || x.Tok == token.BREAK) {
						emit("drop-"+x.Tok.String(), off(x.Pos()), off(x.End()), "")
					}
				case *ast.IncDecStmt:
					s := off(x.TokPos)
					if x.Tok == token.INC {
						emit("inc->dec", s, s+2, "--")
					}
				case *ast.AssignStmt:
					if x.Tok == token.ASSIGN && len(x.Lhs) == 1 {
						// drop a plain assignment to a field or element (state updates); locals mostly fail to compile or are dead
						switch x.Lhs[0].(type) {
						case *ast.SelectorExpr, *ast.IndexExpr, *ast.StarExpr:
							emit("drop-assign", off(x.Pos()), off(x.End()), "")
						}
					}
					if x.Tok == token.ADD_ASSIGN || x.Tok == token.SUB_ASSIGN {
						s := off(x.TokPos)
						emit("opassign->assign", s, s+2, "=")
					}
				case *ast.BasicLit:
					if x.Kind == token.INT {
						s, e := off(x.Pos()), off(x.End())
						switch x.Value {
						case "0":
							emit("lit:0->1", s, e, "1")
						case "1":
							emit("lit:1->0", s, e, "0")
							emit("lit:1->2", s, e, "2")
						}
					}
				case *ast.Ident:
					for _, to := range siblings[x.Name] {
						emit("sibling:"+x.Name+"->"+to, off(x.Pos()), off(x.End()), to)
					}
					if x.Name == "true" || x.Name == "false" {
						s, e := off(x.Pos()), off(x.End())
						if x.Name == "true" {
							emit("lit:true->false", s, e, "false")
						} else {
							emit("lit:false->true", s, e, "true")
						}
					}
				case *ast.CallExpr:
					for k := 0; k+1 < len(x.Args); k++ {
						a, b := x.Args[k], x.Args[k+1]
						if plain(a) && plain(b) {
							as, ae, bs, be := off(a.Pos()), off(a.End()), off(b.Pos()), off(b.End())
							if string(src[as:ae]) == string(src[bs:be]) {
								continue
							}
							emit("swap-args", as, be, string(src[bs:be])+string(src[ae:bs])+string(src[as:ae]))
						}
					}
				}
				return true
			})
		}
	}
}

// siblings: identifiers that differ by one notion (min/max, error/warning, path/in, one keyword for another) and
// have the same type where they occur often enough for the substitution to compile.
var siblings = map[string][]string{}

func init() {
	groups := [][]string{
		{"AddErrors", "AddWarnings"}, {"MergeAsErrors", "MergeAsWarnings"}, {"Merge", "MergeAsWarnings", "MergeAsErrors"},
		{"HasErrors", "HasWarnings", "HasErrorsOrWarnings"}, {"IsValid", "HasErrors"},
		{"Minimum", "Maximum"}, {"MinLength", "MaxLength"}, {"MinItems", "MaxItems"}, {"MinProperties", "MaxProperties"},
		{"ExclusiveMinimum", "ExclusiveMaximum"}, {"MinimumNativeType", "MaximumNativeType"}, {"MinimumInt", "MaximumInt"}, {"MinimumUint", "MaximumUint"},
		{"MinimumInt", "MinimumUint"}, {"MaximumInt", "MaximumUint"}, {"MultipleOfInt", "MultipleOfUint"},
		{"ExceedsMinimum", "ExceedsMaximum"}, {"TooShort", "TooLong"}, {"TooFewItems", "TooManyItems"}, {"TooFewProperties", "TooManyProperties"},
		{"Path", "In"}, {"path", "in"}, {"Name", "In"},
		{"anyOfValidators", "oneOfValidators", "allOfValidators"}, {"validateAnyOf", "validateOneOf", "validateAllOf"},
		{"AnyOf", "OneOf", "AllOf"}, {"keepResultAnyOf", "keepResultOneOf", "keepResultAllOf"},
		{"Properties", "PatternProperties"}, {"AdditionalProperties", "AdditionalItems"}, {"Items", "AdditionalItems"},
		{"Default", "Example"}, {"jsonDefault", "swaggerExample", "jsonProperties"}, {"swaggerExample", "swaggerExamples"}, {"jsonItems", "jsonType"},
		{"isDefault", "isExample", "isProperties"},
		{"integerType", "numberType"}, {"stringType", "numberType"}, {"arrayType", "objectType"}, {"booleanType", "stringType"},
		{"Int", "Uint"}, {"Int64", "Uint64"}, {"Float32", "Float64"}, {"Int32", "Int64"}, {"Uint32", "Uint64"}, {"int64", "uint64"},
		{"asInt64", "asUint64", "asFloat64"}, {"isIntKind", "isUintKind", "isFloatKind"},
		{"Slice", "Map"}, {"Ptr", "Interface"}, {"String", "Slice"},
		{"recycleValidators", "recycleResult"}, {"ContinueOnErrors", "StrictPathParamUniqueness"}, {"SkipSchemataResult", "EnableObjectArrayTypeCheck", "EnableArrayMustHaveItemsCheck"},
		{"skipSchemataResult", "EnableObjectArrayTypeCheck", "EnableArrayMustHaveItemsCheck"},
		{"fieldSchemata", "itemSchemata"}, {"cachedFieldSchemata", "cachedItemSchemata"}, {"one", "multiple"},
		{"Errors", "Warnings"}, {"firstSuccess", "bestFailures"}, {"mainResult", "result"}, {"res", "red"}, {"errs", "warnings"},
		{"BorrowResult", "BorrowSchema"}, {"data", "val"}, {"key", "value"}, {"k", "v"}, {"i", "j"}, {"method", "path"},
		{"param", "op"}, {"schema", "sch"}, {"Schema", "Items"}, {"Required", "ReadOnly"}, {"Headers", "Examples"},
		{"propertyMatch", "patternMatch", "additionalPropertiesMatch"}, {"hasBody", "hasForm"}, {"bodyParams", "firstBodyParam"},
		{"fromPath", "fromOperation"}, {"av", "bv"}, {"ak", "bk"}, {"a", "b"}, {"s", "t"}, {"sr", "tr"}, {"ssize", "tsize"},
	}
	for _, g := range groups {
		for _, a := range g {
			for _, b := range g {
				if a != b {
					dup := false
					for _, x := range siblings[a] {
						if x == b {
							dup = true
						}
					}
					if !dup {
						siblings[a] = append(siblings[a], b)
					}
				}
			}
		}
	}
}

func plain(e ast.Expr) bool {
	switch x := e.(type) {
	case *ast.Ident:
		return x.Name != "nil" && x.Name != "true" && x.Name != "false"
	case *ast.SelectorExpr:
		return plain(x.X)
	}
	return false
}

func isStr(e ast.Expr) bool {
	switch x := e.(type) {
	case *ast.BasicLit:
		return x.Kind == token.STRING
	case *ast.BinaryExpr:
		return isStr(x.X) || isStr(x.Y)
	}
	return false
}

func lineOf(src []byte, off int) int {
	return 1 + strings.Count(string(src[:off]), "\n")
}

var _ = fmt.Sprint

// typeChecker re-checks one package of the subject with one file replaced (dependencies from the loaded program).
type typeChecker struct {
	pkgs map[string]*packages.Package // by directory
	imp  map[string]*types.Package
}

func newTypeChecker(repo string) *typeChecker {
	cfg := &packages.Config{Mode: packages.NeedName | packages.NeedFiles | packages.NeedSyntax | packages.NeedTypes | packages.NeedImports | packages.NeedDeps | packages.NeedCompiledGoFiles, Dir: repo,
		Env: append(os.Environ(), "GOFLAGS=-mod=mod", "GOPROXY=off", "GOSUMDB=off", "GOTOOLCHAIN=local", "GOWORK=off")}
	ps, err := packages.Load(cfg, "./...")
	if err != nil || packages.PrintErrors(ps) > 0 {
		panic(fmt.Sprint("load: ", err))
	}
	t := &typeChecker{pkgs: map[string]*packages.Package{}, imp: map[string]*types.Package{}}
	packages.Visit(ps, nil, func(p *packages.Package) {
		t.imp[p.PkgPath] = p.Types
	})
	for _, p := range ps {
		if len(p.GoFiles) > 0 {
			t.pkgs[filepath.Dir(p.GoFiles[0])] = p
		}
	}
	return t
}

type mapImporter map[string]*types.Package

func (m mapImporter) Import(path string) (*types.Package, error) {
	if p, ok := m[path]; ok {
		return p, nil
	}
	return importer.Default().Import(path)
}

func (t *typeChecker) ok(path string, src []byte, s, e int, repl string) bool {
	p := t.pkgs[filepath.Dir(path)]
	if p == nil {
		return true
	}
	fset := token.NewFileSet()
	var files []*ast.File
	for _, gf := range p.CompiledGoFiles {
		var content []byte
		if gf == path {
			content = append(append(append([]byte{}, src[:s]...), repl...), src[e:]...)
		} else {
			b, err := os.ReadFile(gf)
			if err != nil {
				return false
			}
			content = b
		}
		f, err := parser.ParseFile(fset, gf, content, 0)
		if err != nil {
			return false
		}
		files = append(files, f)
	}
	bad := false
	cfg := types.Config{Importer: mapImporter(t.imp), Error: func(error) { bad = true }}
	_, _ = cfg.Check(p.PkgPath, fset, files, nil)
	return !bad
}
